"""Bind the checks to the code under test.

pyoak is imported straight from the *source files* of $VERIF_REPO/src (default /repo/src): a meta-path finder
placed first in sys.meta_path compiles every pyoak module from its .py on every process start and never reads
or writes byte-code, so an edit of the working tree is always what the checks run, and a scratch copy can be
selected through VERIF_REPO.
"""
from __future__ import annotations

import importlib.abc
import importlib.machinery
import importlib.util
import os
import sys

REPO = os.environ.get("VERIF_REPO", "/repo")
SRC = os.path.join(REPO, "src")


class _Loader(importlib.machinery.SourceFileLoader):
    def get_code(self, fullname):  # always compile from source
        path = self.get_filename(fullname)
        return self.source_to_code(self.get_data(path), path)

    def set_data(self, *a, **k):  # never write byte-code
        return None


class _Finder(importlib.abc.MetaPathFinder):
    def find_spec(self, fullname, path=None, target=None):
        if fullname != "pyoak" and not fullname.startswith("pyoak."):
            return None
        rel = fullname.replace(".", "/")
        for cand, pkg in ((f"{SRC}/{rel}/__init__.py", True), (f"{SRC}/{rel}.py", False)):
            if os.path.exists(cand):
                return importlib.util.spec_from_file_location(
                    fullname,
                    cand,
                    loader=_Loader(fullname, cand),
                    submodule_search_locations=[os.path.dirname(cand)] if pkg else None,
                )
        return None


_installed = False


def install() -> None:
    global _installed
    if _installed:
        return
    if any(m == "pyoak" or m.startswith("pyoak.") for m in sys.modules):
        raise RuntimeError("pyoak imported before mc.boot.install()")
    sys.dont_write_bytecode = True
    sys.meta_path.insert(0, _Finder())
    _installed = True
    import pyoak  # noqa

    assert os.path.realpath(pyoak.__file__).startswith(os.path.realpath(SRC)), pyoak.__file__


install()
