"""Confirm and evaluate one independently written property-breaking change.

  python -m mc.seedeval <worktree-with-seed-dir | seeded/<id>> <seed-id> --property C02 [--checks C02,C14] [--tier quick]

1. copies <src>/seed/{patch.diff,demo.py,NOTES.md} to /verif/seeded/<seed-id>/ (unless already there);
2. in a scratch copy of /repo's working tree (under /var/tmp, removed afterwards): demo on the original must exit 0,
   the patch must apply, the baseline test-suite must pass, the demo must then exit non-zero;
3. runs the named checks with VERIF_REPO pointing at the patched copy and records which of them report a violation;
4. writes seeded/<seed-id>/meta.json.
"""
from __future__ import annotations

import argparse
import json
import os
import shutil
import subprocess
import sys
import tempfile

from .core import ROOT


def run(cmd, **kw):
    return subprocess.run(cmd, capture_output=True, text=True, **kw)


def main(argv=None) -> int:
    ap = argparse.ArgumentParser()
    ap.add_argument("src")
    ap.add_argument("seed_id")
    ap.add_argument("--property", required=True)
    ap.add_argument("--checks")
    ap.add_argument("--tier", default="quick")
    ap.add_argument("--needs", default="")
    a = ap.parse_args(argv)
    dest = os.path.join(ROOT, "seeded", a.seed_id)
    os.makedirs(dest, exist_ok=True)
    srcdir = os.path.join(a.src, "seed") if os.path.isdir(os.path.join(a.src, "seed")) else a.src
    for f in ("patch.diff", "demo.py", "NOTES.md"):
        s = os.path.join(srcdir, f)
        if os.path.exists(s) and os.path.abspath(s) != os.path.abspath(os.path.join(dest, f)):
            shutil.copy(s, os.path.join(dest, f))
    patch, demo = os.path.join(dest, "patch.diff"), os.path.join(dest, "demo.py")
    tmp = tempfile.mkdtemp(prefix="pyoak-seed-", dir="/var/tmp")
    meta = {"seed": a.seed_id, "breaks_property": a.property, "needs_to_manifest": a.needs, "ran": {}}
    metap = os.path.join(dest, "meta.json")
    if os.path.exists(metap):
        try:
            old = json.load(open(metap))
            meta["needs_to_manifest"] = a.needs or old.get("needs_to_manifest", "")
            meta["history"] = old.get("history", [])
        except Exception:  # noqa: BLE001
            pass
    try:
        subprocess.run(["rsync", "-a", "--exclude", ".git", "--exclude", "testtemp", "--exclude", "__pycache__", "--exclude", "seed", "/repo/", tmp + "/"], check=True)
        env = dict(os.environ, PYTHONPATH=os.path.join(tmp, "src"), PYTHONDONTWRITEBYTECODE="1")
        r = run([sys.executable, demo], cwd=tmp, env=env)
        meta["ran"]["demo_on_original"] = {"rc": r.returncode, "tail": (r.stdout + r.stderr).strip()[-200:]}
        r = run(["git", "apply", "--whitespace=nowarn", patch], cwd=tmp)
        if r.returncode:
            r = run(["patch", "-p1", "-i", patch], cwd=tmp)
        meta["ran"]["patch_applies_to_current_repo"] = r.returncode == 0
        if r.returncode:
            print("PATCH DOES NOT APPLY", r.stdout[-400:], r.stderr[-400:])
            json.dump(meta, open(metap, "w"), indent=1)
            return 3
        r = run([sys.executable, "-m", "pytest", "-q", "-p", "no:cacheprovider", "--timeout=900"], cwd=tmp, env=env)
        tail = r.stdout.strip().splitlines()[-1] if r.stdout.strip() else r.stderr[-200:]
        meta["ran"]["baseline_tests_with_change"] = {"rc": r.returncode, "tail": tail}
        r = run([sys.executable, demo], cwd=tmp, env=env)
        meta["ran"]["demo_with_change"] = {"rc": r.returncode, "tail": (r.stdout + r.stderr).strip()[-300:]}
        valid = (meta["ran"]["demo_on_original"]["rc"] == 0 and meta["ran"]["baseline_tests_with_change"]["rc"] == 0
                 and meta["ran"]["demo_with_change"]["rc"] != 0)
        meta["confirmed"] = valid
        meta["checks"] = {}
        for pid in (a.checks or a.property).split(","):
            env2 = dict(os.environ, VERIF_REPO=tmp, VERIF_OUT=os.path.join(tmp, "verif-out"))
            r = run([sys.executable, "-m", "mc.run", pid, "--tier", a.tier], cwd=ROOT, env=env2)
            sigs = sorted({ln.split("signature:", 1)[1].strip() for ln in r.stdout.splitlines() if ln.strip().startswith("signature:")})
            meta["checks"][pid] = {"tier": a.tier, "rc": r.returncode, "detected": r.returncode == 1, "signatures": sigs[:12]}
            if r.returncode not in (0, 1):
                print(r.stdout[-1500:], r.stderr[-1500:])
        meta.setdefault("history", []).append({k: (v["detected"], v["tier"]) for k, v in meta["checks"].items()})
        json.dump(meta, open(metap, "w"), indent=1)
        print(json.dumps({k: meta[k] for k in ("seed", "confirmed", "checks")}))
        print("ran:", json.dumps(meta["ran"]))
        return 0
    finally:
        shutil.rmtree(tmp, ignore_errors=True)


if __name__ == "__main__":
    sys.exit(main())
