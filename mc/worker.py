"""Worker process: executes one shard (or one replay case) of one check against the code under test.

usage: python -m mc.worker <Cnn> shard  <cfg.json> <out.json>
       python -m mc.worker <Cnn> replay <case.json> <out.json>
"""
from __future__ import annotations

import importlib
import json
import os
import sys
import traceback


def main(argv):
    pid, mode, inp, outp = argv
    try:  # a runaway allocation must fail this shard, not the machine
        import resource

        lim = int(os.environ.get("VERIF_MEM_GB", "10")) << 30
        resource.setrlimit(resource.RLIMIT_AS, (lim, lim))
    except Exception:  # noqa: BLE001
        pass
    from . import boot  # noqa: F401  (binds pyoak to $VERIF_REPO/src)
    from .core import detuple, dump

    mod = importlib.import_module(f"mc.checks.{pid.lower()}")
    with open(inp) as f:
        data = json.load(f)
    # configuration dimension shared by all checks: trace logging (it only adds log records) is switched on in every shard
    # whose index is 1 mod 3, in both node implementations; a replay runs under the configuration of the shard that
    # found the case
    cfg = data if mode == "shard" else (data.get("cfg") or {})
    trace = int(cfg.get("shard", cfg.get("k", 0)) or 0) % 3 == 1
    from pyoak import config as _config

    _config.TRACE_LOGGING = trace
    if pid.upper() in ("C18", "C19", "C20"):
        import warnings

        with warnings.catch_warnings():
            warnings.simplefilter("ignore")
            import pyoak.legacy.node as _ln
        _ln.TRACE_LOGGING = trace
    try:
        if mode == "shard":
            res = mod.run_shard(data)
        elif mode == "replay":
            viols = mod.replay(detuple(data["case"]), data.get("cfg") or {})
            res = {"violations": viols}
        else:
            raise SystemExit("bad mode")
        res["ok"] = True
    except BaseException:  # noqa: BLE001 - reported to the parent as a harness error
        res = {"ok": False, "error": traceback.format_exc()}
    dump(outp, res)
    return 0


if __name__ == "__main__":
    sys.exit(main(sys.argv[1:]))
