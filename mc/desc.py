"""Tree descriptors: the model side of every E1 check.

A descriptor is a nested tuple  (class_name, ((field, value), ...))  listing the *init* fields in declaration
order.  For a child field the value is a descriptor, None, or a tuple of descriptors; for a property it is the
plain value.  Reference models work on descriptors only and never call pyoak; `build` realises a descriptor
as real nodes.  A *path* is a tuple of (field, index|None) steps from the root.
"""
from __future__ import annotations

import itertools
from dataclasses import dataclass, field as dfield
from typing import Any, Callable

ONE, OPT, VAR, FIX, PROP = "one", "opt", "var", "fix", "prop"


@dataclass
class F:
    name: str
    kind: str
    allowed: Any = None          # ONE/OPT/VAR: set of class names or None (any); FIX: tuple of such sets
    alphabet: tuple = (0,)       # PROP: values enumerated
    compare: bool = True
    init: bool = True
    maxlen: int = 3              # VAR
    default: Any = None          # PROP with init=False: the value the instance carries
    seq: Any = tuple             # VAR/FIX: the sequence type the field is built with (legacy classes also use list)


@dataclass
class C:
    name: str
    pycls: type
    fields: list  # list[F] in dataclass order
    bases: tuple = ()            # names of zoo base classes (for isinstance in references)

    @property
    def child_fields(self):
        return [f for f in self.fields if f.kind != PROP]

    @property
    def prop_fields(self):
        return [f for f in self.fields if f.kind == PROP]


class Universe:
    def __init__(self, name: str, classes: list[C]):
        self.name = name
        self.classes = {c.name: c for c in classes}
        self.order = [c.name for c in classes]
        self._memo: dict = {}
        self._seq_memo: dict = {}

    def isinstance(self, cname: str, base: str) -> bool:
        if cname == base or base == "ASTNode":
            return True
        return any(self.isinstance(b, base) for b in self.classes[cname].bases)

    def fspec(self, cname: str, fname: str) -> F:
        for f in self.classes[cname].fields:
            if f.name == fname:
                return f
        raise KeyError(fname)

    # ---- enumeration: all descriptors with exactly n nodes, simplest (declaration order) first ----
    def trees(self, n: int, roots=None) -> list:
        key = (n, None if roots is None else tuple(sorted(roots)))
        if key in self._memo:
            return self._memo[key]
        out = []
        for cname in self.order:
            if roots is not None and cname not in roots:
                continue
            c = self.classes[cname]
            initf = [f for f in c.fields if f.init]
            for combo in self._fill(initf, 0, n - 1):
                out.append((cname, tuple(combo)))
        self._memo[key] = out
        return out

    def _fill(self, fields, i, budget):
        """All assignments to fields[i:] using exactly `budget` nodes."""
        if i == len(fields):
            if budget == 0:
                yield []
            return
        f = fields[i]
        rest_min = sum(1 for g in fields[i + 1:] if g.kind == ONE) + sum(len(g.allowed) for g in fields[i + 1:] if g.kind == FIX)
        if f.kind == PROP:
            for v in f.alphabet:
                for rest in self._fill(fields, i + 1, budget):
                    yield [(f.name, v)] + rest
            return
        for k in range(0, budget - rest_min + 1):
            for val in self._field_values(f, k):
                for rest in self._fill(fields, i + 1, budget - k):
                    yield [(f.name, val)] + rest

    def _field_values(self, f: F, k: int):
        if f.kind == ONE:
            if k >= 1:
                yield from self.trees(k, f.allowed)
        elif f.kind == OPT:
            if k == 0:
                yield None
            else:
                yield from self.trees(k, f.allowed)
        elif f.kind == VAR:
            if k == 0:
                yield ()
            else:
                for ln in range(1, min(f.maxlen, k) + 1):
                    yield from self._seqs(tuple([f.allowed] * ln), k)
        elif f.kind == FIX:
            if k >= len(f.allowed):
                yield from self._seqs(tuple(f.allowed), k)

    def _seqs(self, alloweds: tuple, k: int) -> list:
        key = (tuple(None if a is None else tuple(sorted(a)) for a in alloweds), k)
        if key in self._seq_memo:
            return self._seq_memo[key]
        out = []
        if len(alloweds) == 0:
            if k == 0:
                out.append(())
        else:
            for a in range(1, k - (len(alloweds) - 1) + 1):
                for t in self.trees(a, alloweds[0]):
                    for rest in self._seqs(alloweds[1:], k - a):
                        out.append((t,) + rest)
        self._seq_memo[key] = out
        return out

    # ---- structure of a descriptor ------------------------------------------------------------------
    def children(self, d) -> list:
        """[(field, index|None, child_desc)] in declaration order, tuple elements left to right."""
        out = []
        c = self.classes[d[0]]
        vals = dict(d[1])
        for f in c.fields:
            if f.kind == PROP or f.name not in vals:
                continue
            v = vals[f.name]
            if f.kind in (VAR, FIX):
                for i, x in enumerate(v):
                    out.append((f.name, i, x))
            elif v is not None:
                out.append((f.name, None, v))
        return out

    def positions(self, d, path=()) -> list:
        """Pre-order list of (path, desc), root included."""
        out = [(path, d)]
        for fn, i, cd in self.children(d):
            out += self.positions(cd, path + ((fn, i),))
        return out

    def size(self, d) -> int:
        return 1 + sum(self.size(cd) for _, _, cd in self.children(d))

    def key(self, d):
        """Structural key: class, comparable property values with their types, children keys by position."""
        c = self.classes[d[0]]
        vals = dict(d[1])
        props = []
        kids = []
        for f in c.fields:
            if f.kind == PROP:
                if not f.compare:
                    continue
                v = vals[f.name] if f.init else f.default
                props.append((f.name, typed(v)))
            else:
                v = vals[f.name]
                if f.kind in (VAR, FIX):
                    kids.append((f.name, tuple(self.key(x) for x in v)))
                else:
                    kids.append((f.name, None if v is None else self.key(v)))
        return (d[0], tuple(sorted(props)), tuple(sorted(kids)))

    # ---- realisation ----------------------------------------------------------------------------------
    def build(self, d, origin: Callable | None = None, path=(), index: dict | None = None, share: dict | None = None):
        """Build real nodes bottom-up.  origin(path, desc) -> Origin | None.  index[path] = node.
        share maps a path to an earlier (pre-order) path whose *object* is re-used at that position."""
        if index is None:
            index = {}
        c = self.classes[d[0]]
        kw = {}
        for fn, v in d[1]:
            f = self.fspec(d[0], fn)
            if f.kind == PROP:
                kw[fn] = v
            elif f.kind in (VAR, FIX):
                kw[fn] = f.seq(self._b(x, origin, path + ((fn, i),), index, share) for i, x in enumerate(v))
            else:
                kw[fn] = None if v is None else self._b(v, origin, path + ((fn, None),), index, share)
        if origin is not None:
            o = origin(path, d)
            if o is not None:
                kw["origin"] = o
        node = c.pycls(**kw)
        index[path] = node
        return node

    def _b(self, d, origin, path, index, share):
        if share and path in share:
            node = index[share[path]]
            self._index_existing(d, node, path, index)
            return node
        return self.build(d, origin, path, index, share)

    def _index_existing(self, d, node, path, index):
        index[path] = node
        for fn, i, cd in self.children(d):
            v = getattr(node, fn)
            self._index_existing(cd, v if i is None else v[i], path + ((fn, i),), index)


def typed(v):
    """Value together with its type, recursively - 'equal values of equal types'."""
    if isinstance(v, tuple):   # a tuple subclass (named tuple) is a type of its own
        return (type(v).__name__, tuple(typed(x) for x in v))
    if isinstance(v, frozenset):
        return ("frozenset", frozenset(typed(x) for x in v))
    return (type(v).__name__, v)


def node_at(root, path):
    cur = root
    for fn, i in path:
        v = getattr(cur, fn)
        cur = v if i is None else v[i]
    return cur


def subsets(items, max_size=None):
    items = list(items)
    top = len(items) if max_size is None else min(max_size, len(items))
    for k in range(top + 1):
        for s in itertools.combinations(items, k):
            yield frozenset(s)
