"""Shared explicit-state model of the legacy parent-aware trees (serves C18 and C19).

Universe: leaf LL(v in {a, b}); inner LI(opt: N | None, tup: tuple[N, ...], lst: list[N]); LR(req: N).
World: 4 slots with strong references; receivers and arguments range over every node reachable from a slot
(attached roots and subtrees, detached and stale nodes, twins), numbered in deterministic DFS order.
Transition function: the real legacy code.  mode "c18" judges the structural invariant after every successful
operation; mode "c19" judges that a rejected operation (documented error) changed nothing.
"""
from __future__ import annotations

import gc
import warnings
from dataclasses import dataclass, field, fields

from . import boot  # noqa: F401

warnings.simplefilter("ignore", DeprecationWarning)

from pyoak.legacy import error as LE  # noqa: E402
from pyoak.legacy.node import ASTTransformer, ASTTransformVisitor  # noqa: E402
from pyoak.legacy.node import AwareASTNode as N  # noqa: E402
from pyoak.origin import NO_ORIGIN  # noqa: E402

NSLOTS = 4
DOCUMENTED = (LE.ASTNodeDuplicateChildrenError, LE.ASTNodeParentCollisionError, LE.ASTNodeRegistryCollisionError,
              LE.ASTNodeIDCollisionError, LE.ASTNodeReplaceError, LE.ASTNodeReplaceWithError, LE.ASTTransformError)


@dataclass
class LL(N):
    v: str = "a"


@dataclass
class LI(N):
    opt: N | None = None
    tup: tuple[N, ...] = ()
    lst: list[N] = field(default_factory=list)


@dataclass
class LF(LI):  # universe "falsy": the inner class is falsy in a boolean context although it holds children
    def __bool__(self) -> bool:
        return False


@dataclass
class LR(N):
    req: N = None  # type: ignore[assignment]


def kids(n):
    """[(child, field name, index|None)] by plain attribute access, declaration order."""
    out = []
    if isinstance(n, LI):
        if n.opt is not None:
            out.append((n.opt, "opt", None))
        for i, c in enumerate(n.tup):
            out.append((c, "tup", i))
        for i, c in enumerate(n.lst):
            out.append((c, "lst", i))
    elif isinstance(n, LR):
        if n.req is not None:
            out.append((n.req, "req", None))
    return out


def subtree(n, seen=None):
    seen = set() if seen is None else seen
    out = []
    stack = [n]
    while stack:
        x = stack.pop()
        if id(x) in seen:
            continue
        seen.add(id(x))
        out.append(x)
        stack.extend(reversed([c for c, _, _ in kids(x)]))
    return out


class World:
    def __init__(self):
        self.slots = [None] * NSLOTS
        self.tools = {}   # one visitor / transformer object per kind for the whole history: a program keeps and re-uses them

    def reachable(self):
        seen = set()
        out = []
        for s in self.slots:
            if s is not None:
                out += subtree(s, seen)
        return out

    def free(self):
        for i, s in enumerate(self.slots):
            if s is None:
                return i
        return None


def in_subtree(root, x):
    return any(y is x for y in subtree(root))


def readonly_battery(n):
    """Operations that only read (traversals, upward queries, legacy xpath, properties, serialization, printing):
    they lead back to the same canonical state; the invariant is evaluated after them like after any operation."""
    from pyoak.legacy.match.xpath import ASTXpath as LX

    list(n.dfs()), list(n.dfs(bottom_up=True, skip_self=True)), list(n.bfs()), list(n.gather(LL))
    list(n.ancestors()), n.get_depth(), n.children, list(n.get_properties()), n.to_properties_dict()
    list(n.get_child_nodes_with_field()), n.is_equal(n), n == n, repr(n)
    LX("//LL").match(n), LX("/LI/@tup[0]").match(n) if False else None
    n.as_dict(), n.to_json()


class Ident(ASTTransformVisitor):
    pass


def make_visitor(kind):
    ns = {}
    if kind == "rewrite":
        ns["visit_LL"] = lambda self, node: node.replace(v="b" if node.v == "a" else "a")
    elif kind == "remove-a":
        ns["visit_LL"] = lambda self, node: None if node.v == "a" else node
    elif kind == "raise-b":
        def r(self, node):   # rewrites the 'a' leaves it meets before it fails at a 'b' leaf
            if node.v == "b":
                raise RuntimeError("visitor failure")
            return node.replace(v="b")
        ns["visit_LL"] = r
    return type("LV", (ASTTransformVisitor,), ns)()


def make_transformer(kind):
    def tr(self, node):
        if isinstance(node, LL):
            if kind == "rewrite":
                return node.replace(v="b" if node.v == "a" else "a")
            if kind == "remove-a" and node.v == "a":
                return None
            if kind == "raise-b":
                if node.v == "b":
                    raise RuntimeError("transformer failure")
                return node.replace(v="b")
        return node

    return type("LT", (ASTTransformer,), {"transform": tr})()


class Loud(str):
    """A value that is == to the plain string (and hashes alike) but PRINTS differently: content ids are built from the
    printed value, dataclass equality from ==."""

    def __str__(self):
        return "loud:" + str.__str__(self)


class Model:
    def __init__(self, mode: str, universe: str = "full", precalc: bool = False):
        self.mode = mode
        self.universe = universe
        self.precalc = precalc   # calculate_xpath() on every attached root after each replayed prefix operation
        self.inner = LF if universe == "falsy" else LI

    def case_extras(self):
        """What a replay needs besides the history (used for violations raised by the explorer itself)."""
        return {"mode": self.mode, "universe": self.universe, **({"precalc": True} if self.precalc else {})}

    # ---- world --------------------------------------------------------------------------------------
    def fresh(self):
        N._nodes.clear()
        return World()

    def ops(self, w: World):
        nodes = w.reachable()
        R = range(len(nodes))
        roots = [i for i in R if any(nodes[i] is s for s in w.slots)]
        ops = []
        if w.free() is not None:
            ops += [("leaf", "a"), ("leaf", "b")]
            for r in R:
                ops += [("mkopt", r), ("mktup", r), ("mklst", r), ("dup", r), ("dupdet", r)]
                if self.universe == "full":
                    ops.append(("mkreq", r))
                for r2 in R:
                    ops.append(("mktup2", r, r2))
                    if r2 != r:
                        ops.append(("mklst2", r, r2))
            for a in roots:
                for b in roots:
                    for c in roots:
                        if len({a, b, c}) == 3:
                            ops.append(("mk3", a, b, c))
                            # three elements in ONE sequence (tuple / list): removing the first shifts two later siblings
                            ops.append(("mktup3", a, b, c))
                            ops.append(("mklst3", a, b, c))
            for r in R:
                n = nodes[r]
                if isinstance(n, LL):
                    ops.append(("rep_v", r))
                    ops.append(("rep_v_lookalike", r))
                if isinstance(n, LI):
                    ops += [("rep_opt_none", r), ("rep_tup_empty", r), ("rep_tup_rev", r), ("rep_tup_dupfirst", r), ("rep_lst_empty", r)]
                    for r2 in R:
                        if not in_subtree(nodes[r2], n):
                            ops += [("rep_opt", r, r2), ("rep_tup_append", r, r2), ("rep_lst_append", r, r2)]
                ops.append(("rep_forbidden", r))
                for kind in ("identity", "rewrite", "remove-a", "raise-b"):
                    ops.append(("visit", r, kind))
                for kind in ("rewrite", "remove-a", "raise-b"):
                    ops.append(("execute", r, kind))
        for r in R:
            ops += [("attach", r), ("detach", r), ("detach_self", r), ("rw_none", r), ("readonly", r)]
            for r2 in R:
                if r2 != r and not in_subtree(nodes[r2], nodes[r]):
                    ops.append(("rw", r, r2))
        for i, s in enumerate(w.slots):
            if s is not None:
                ops.append(("drop", i))
        return ops

    def canon(self, w: World):
        num = {}
        nodes = w.reachable()
        for n in nodes:
            num[id(n)] = len(num)
        rows = []
        for n in nodes:
            par = n.parent
            rows.append((num[id(n)], type(n).__name__, getattr(n, "v", None), tuple((num[id(c)], f, i) for c, f, i in kids(n)),
                         n.id, n.original_id, n.id_collision_with, n.detached, None if par is None else num.get(id(par), "external"),
                         None if n.parent_field is None else n.parent_field.name, n.parent_index, n.content_id))
        slots = tuple(None if s is None else num[id(s)] for s in w.slots)
        return (slots, tuple(rows), tuple(sorted(N._nodes.keys())))

    # ---- the operation itself -----------------------------------------------------------------------------
    def perform(self, w: World, op, nodes):
        """Runs the real operation.  Returns the new object to put into a free slot (or None)."""
        k = op[0]
        if k == "leaf":
            return LL(op[1], origin=NO_ORIGIN)
        if k == "mkopt":
            return self.inner(opt=nodes[op[1]], origin=NO_ORIGIN)
        if k == "mktup":
            return self.inner(tup=(nodes[op[1]],), origin=NO_ORIGIN)
        if k == "mktup2":
            return self.inner(tup=(nodes[op[1]], nodes[op[2]]), origin=NO_ORIGIN)
        if k == "mklst":
            return self.inner(lst=[nodes[op[1]]], origin=NO_ORIGIN)
        if k == "mklst2":
            return self.inner(lst=[nodes[op[1]], nodes[op[2]]], origin=NO_ORIGIN)
        if k == "mkreq":
            return LR(req=nodes[op[1]], origin=NO_ORIGIN)
        if k == "mktup3":
            return self.inner(tup=(nodes[op[1]], nodes[op[2]], nodes[op[3]]), origin=NO_ORIGIN)
        if k == "mklst3":
            return self.inner(lst=[nodes[op[1]], nodes[op[2]], nodes[op[3]]], origin=NO_ORIGIN)
        if k == "mk3":
            return self.inner(opt=nodes[op[1]], tup=(nodes[op[2]],), lst=[nodes[op[3]]], origin=NO_ORIGIN)
        if k == "dup":
            return nodes[op[1]].duplicate()
        if k == "dupdet":
            return nodes[op[1]].duplicate(as_detached_clone=True)
        n = nodes[op[1]] if len(op) > 1 and k != "drop" else None
        if k == "rep_v":
            return n.replace(v="b" if n.v == "a" else "a")
        if k == "rep_v_lookalike":
            return n.replace(v=Loud(n.v))
        if k == "rep_opt_none":
            return n.replace(opt=None)
        if k == "rep_opt":
            return n.replace(opt=nodes[op[2]])
        if k == "rep_tup_empty":
            return n.replace(tup=())
        if k == "rep_tup_rev":
            return n.replace(tup=tuple(reversed(n.tup)))
        if k == "rep_tup_dupfirst":
            return n.replace(tup=n.tup + n.tup[:1])
        if k == "rep_tup_append":
            return n.replace(tup=n.tup + (nodes[op[2]],))
        if k == "rep_lst_empty":
            return n.replace(lst=[])
        if k == "rep_lst_append":
            return n.replace(lst=n.lst + [nodes[op[2]]])
        if k == "rep_forbidden":
            return n.replace(id="forced")
        if k == "visit":
            v = w.tools.get(("visit", op[2])) or w.tools.setdefault(("visit", op[2]), Ident() if op[2] == "identity" else make_visitor(op[2]))
            return v.transform(n)
        if k == "execute":
            t = w.tools.get(("execute", op[2])) or w.tools.setdefault(("execute", op[2]), make_transformer(op[2]))
            return t.execute(n)
        if k == "readonly":
            readonly_battery(n)
            return None
        if k == "attach":
            n.attach()
            return None
        if k == "detach":
            n.detach()
            return None
        if k == "detach_self":
            n.detach_self()
            return None
        if k == "rw_none":
            n.replace_with(None)
            return None
        if k == "rw":
            n.replace_with(nodes[op[2]])
            return None
        if k == "drop":
            w.slots[op[1]] = None
            return None
        raise ValueError(op)

    def apply(self, w: World, op, rec, hist):
        judge = rec is not None
        nodes = w.reachable()
        fs = w.free()
        snap = snapshot(nodes) if judge and self.mode == "c19" else None
        pre = precondition_facts(op, nodes) if judge else None
        status, new, errname = "ok", None, None
        try:
            new = self.perform(w, op, nodes)
        except DOCUMENTED as e:
            status, errname = "rejected", type(e).__name__ + ("<-" + type(e.__cause__).__name__ if e.__cause__ is not None else "")
            e.__traceback__ = None
            del e
        except Exception as e:  # noqa: BLE001
            status, errname = "undocumented", type(e).__name__
            e.__traceback__ = None
            del e
        if new is not None and isinstance(new, N) and fs is not None and not any(new is s for s in w.slots):
            w.slots[fs] = new
        del new
        if not judge:
            # replay: a rejected / undocumented prefix op is a dead end recorded as such by the explorer
            if status == "ok" and self.precalc:
                # the judged operation then meets a world whose stored xpaths are up to date, and the invariant
                # calculates them a second time after the change
                for r in w.slots:
                    if r is not None and not r.detached and r.parent is None:
                        try:
                            r.calculate_xpath()
                        except Exception:  # noqa: BLE001
                            pass
            return "ok" if status == "ok" else "prune"
        case = {"mode": self.mode, "universe": self.universe, "history": [list(o) for o in hist] + [list(op)]}
        if self.precalc:
            case["precalc"] = True
        rec.sample(case)
        rec.count("evaluations")
        rec.outcome(f"{op[0]}:{status if status != 'rejected' else errname}")
        if status == "undocumented":
            rec.count("undocumented_exception")
            return "prune"
        if status == "rejected":
            rec.count("rejected")
            if self.mode == "c19":
                rec.count("nontrivial")
                after = snapshot(nodes)
                diff = snap_diff(snap, after, nodes)
                if diff:  # confirm after a collection: objects held only by the dropped exception must not count
                    gc.collect()
                    after = snapshot(nodes)
                    diff = snap_diff(snap, after, nodes)
                if diff:
                    groups = sorted({f"{pre['roles'].get(i, 'other')}:{group_of(what)}" for i, what in diff})
                    sig = f"C19|{op_family(op)}|{errname}|{pre['ids']}|" + "+".join(groups)
                    rec.violation(sig, case, f"rejected {op[0]} ({errname}) changed pre-existing nodes: " + "; ".join(f"node#{i} {what}" for i, what in diff[:6]),
                                  instance=_inst(self.universe, hist, op, sig, sorted(diff)))
                else:
                    # the same call once more, with the same visitor / transformer object: a rejected call leaves nothing behind,
                    # so the repetition is rejected for the same reason and changes nothing either
                    st2, err2 = "ok", None
                    try:
                        self.perform(w, op, nodes)
                    except DOCUMENTED as e:
                        st2, err2 = "rejected", type(e).__name__ + ("<-" + type(e.__cause__).__name__ if e.__cause__ is not None else "")
                        e.__traceback__ = None
                        del e
                    except Exception as e:  # noqa: BLE001
                        st2, err2 = "undocumented", type(e).__name__
                        e.__traceback__ = None
                        del e
                    after2 = snapshot(nodes)
                    diff2 = snap_diff(snap, after2, nodes)
                    if diff2 and st2 == "rejected":
                        gc.collect()
                        diff2 = snap_diff(snap, snapshot(nodes), nodes)
                    if st2 != "rejected" or err2 != errname or diff2:
                        sig = f"C19|{op_family(op)}|{errname}|{pre['ids']}|on-repeat"
                        what2 = (f"was {st2}{' (' + err2 + ')' if err2 else ''}" if (st2 != "rejected" or err2 != errname) else
                                 "changed pre-existing nodes: " + "; ".join(f"node#{i} {x}" for i, x in diff2[:6]))
                        rec.violation(sig, case, f"rejected {op[0]} ({errname}) changed nothing, but the same call repeated {what2}",
                                      instance=_inst(self.universe, hist, op, sig, sorted(diff2) if diff2 else st2))
            return "prune"  # a rejected operation changes nothing: no new state
        # successful operation
        if two_positions(w):
            return "prune"  # inadmissible: one node object at two positions
        if self.mode == "c18":
            if op[0] not in ("drop",):
                rec.count("nontrivial")
            errs = invariant(w)
            errs += postconditions(w, op, nodes, pre)
            for kind, msg in errs:
                sg = f"C18|{op_family(op)}|{pre['ids']}|{kind}"
                rec.violation(sg, case, msg, instance=_inst(self.universe, hist, op, sg, msg))
            if errs:
                return "viol"
        # a leaf value replaced by one that is == but prints differently is a one-step look-ahead: judged, not expanded
        return "probe" if op[0] == "rep_v_lookalike" else "ok"


def precondition_facts(op, nodes):
    """Facts about the world before the call.
    ids = 'aliased' when identity-by-id-string is ambiguous somewhere in the reachable world: two distinct reachable
    objects carry one id (a stale original next to its replacement, a detached clone next to the original), a reachable
    node's id is registered to another object, or a node's parent id no longer leads to an object that holds it.
    Every recorded legacy finding needs such a world; a violation reached from an alias-free ('plain') world is a
    different finding and is reported."""
    aliased = False
    seen = {}
    for x in nodes:
        if seen.setdefault(x.id, x) is not x:
            aliased = True
        other = N._nodes.get(x.id)
        if other is not None and other is not x:
            aliased = True
        pid = getattr(x, "_parent_id", None)
        if pid is not None:
            par = N._nodes.get(pid)
            if par is None or not any(c is x for c, _, _ in kids(par)):
                aliased = True
    involved = [nodes[i] for i in op[1:] if isinstance(i, int) and not isinstance(i, bool) and op[0] != "drop" and i < len(nodes)]
    recv = involved[0] if involved and not op[0].startswith("mk") else None
    # roles of the pre-existing nodes in this call: the receiver, its proper descendants, the arguments with their
    # subtrees, everything else ("registry" pseudo-node -1 is always 'other')
    roles = {}
    index_of = {id(n): i for i, n in enumerate(nodes)}
    args = involved[1:] if recv is not None else involved
    for a in args:
        for x in subtree(a):
            roles[index_of[id(x)]] = "arg"
    if recv is not None:
        for x in subtree(recv):
            roles.setdefault(index_of[id(x)], "recv-sub")
        roles[index_of[id(recv)]] = "recv"
    return {"ids": "aliased" if aliased else "plain", "roles": roles,
            "receiver_attached_root": bool(recv is not None and not recv.detached and recv.parent is None)}


def _inst(universe, hist, op, sig, detail):
    """Identity of one violating instance: the exact history and what exactly deviated."""
    import hashlib

    return hashlib.blake2b(repr((universe, tuple(hist), tuple(op), sig, detail)).encode(), digest_size=7).hexdigest()


def op_family(op):
    k = op[0]
    if k.startswith("mk") or k == "leaf":
        return "construct"
    if k.startswith("rep_"):
        return "replace"
    if k in ("rw", "rw_none"):
        return "replace_with"
    if k in ("dup", "dupdet"):
        return "duplicate"
    return k


GROUPS = {"parent": "parent-link", "parent_field": "parent-link", "parent_index": "parent-link", "attached": "attachment",
          "id": "identity", "original_id": "identity", "content_id": "content", "v": "content", "children": "content"}


def group_of(what):
    """Observable groups: parent-link / attachment (attached flag, registry) / identity (id, original id) / content."""
    return "attachment" if what.startswith("registry") else GROUPS[what]


def role_of(i, op):
    """Role of node #i in the operation: receiver / argument / other."""
    if op[0] in ("leaf",) or i < 0:
        return "other"
    if len(op) > 1 and op[1] == i and not op[0].startswith("mk"):
        return "receiver"
    if i in op[1:]:
        return "argument"
    return "other"


def snapshot(nodes):
    snap = []
    reg = {k: id(v) for k, v in N._nodes.items()}
    for n in nodes:
        par = n.parent
        snap.append({
            "attached": not n.detached, "parent": None if par is None else id(par),
            "parent_field": None if n.parent_field is None else n.parent_field.name, "parent_index": n.parent_index,
            "id": n.id, "original_id": n.original_id, "content_id": n.content_id, "v": getattr(n, "v", None),
            "children": tuple((id(c), f, i) for c, f, i in kids(n)),
        })
    return snap, reg


def snap_diff(before, after, nodes):
    (b, breg), (a, areg) = before, after
    out = []
    for i, (x, y) in enumerate(zip(b, a)):
        for k in x:
            if x[k] != y[k]:
                out.append((i, k))
    if breg != areg:
        gone = sorted(set(breg) - set(areg))
        new = sorted(set(areg) - set(breg))
        swapped = sorted(k for k in set(breg) & set(areg) if breg[k] != areg[k])
        out.append((-1, "registry(" + ("-" if gone else "") + ("+" if new else "") + ("~" if swapped else "") + ")"))
    return out


def attached_children_map(w):
    """For every reachable attached node, its children; used for the two-positions test."""
    holders = {}
    for n in w.reachable():
        if n.detached:
            continue
        for c, f, i in kids(n):
            holders.setdefault(id(c), []).append((n, f, i))
    return holders


def two_positions(w) -> bool:
    return any(len(v) > 1 for v in attached_children_map(w).values())


def rebuild_content_id(n):
    """content_id of an independently built equal tree (detached clones, bottom-up, same property values)."""
    if isinstance(n, LL):
        return LL(n.v, origin=n.origin, create_detached=True).content_id
    return _clone(n).content_id


def _clone(n):
    if isinstance(n, LL):
        return LL(n.v, origin=n.origin, create_detached=True)
    if isinstance(n, LR):
        return LR(req=_clone(n.req), origin=n.origin, create_detached=True)
    return type(n)(opt=None if n.opt is None else _clone(n.opt), tup=tuple(_clone(c) for c in n.tup), lst=[_clone(c) for c in n.lst],
              origin=n.origin, create_detached=True)


def invariant(w: World):
    errs = []
    nodes = w.reachable()
    for n in nodes:
        if n.detached:
            continue
        if N.get_any(n.id) is not n:
            errs.append(("lookup", f"attached node {n.id} is not returned by lookup under its id"))
        for c, f, i in kids(n):
            if c.detached:
                errs.append(("detached-child-of-attached", f"child {f}[{i}] of attached node {type(n).__name__} is detached"))
                continue
            if c.parent is not n:
                errs.append(("child-parent-link", f"child {f}[{i}] of an attached node reports another parent"))
            elif (c.parent_field.name if c.parent_field else None) != f or c.parent_index != i:
                errs.append(("child-position", f"child stored at {f}[{i}] reports {c.parent_field.name if c.parent_field else None}[{c.parent_index}]"))
        p = n.parent
        if p is not None:
            fld = n.parent_field.name if n.parent_field else None
            try:
                v = getattr(p, fld)
                at = v[n.parent_index] if n.parent_index is not None else v
            except Exception:  # noqa: BLE001
                at = None
            if at is not n:
                errs.append(("parent-does-not-hold", f"attached node says it sits at {fld}[{n.parent_index}] of its parent, which holds something else"))
        try:
            if n.content_id != rebuild_content_id(n):
                errs.append(("content_id-stale", f"content_id of attached {type(n).__name__} differs from an independently built equal tree"))
        except Exception:  # noqa: BLE001
            pass
    # upward queries against the chain of actual positions, from every attached root
    for r in nodes:
        if r.detached or r.parent is not None:
            continue
        ok = r.calculate_xpath()
        chain_of = {}

        def walk(x, chain, xp):
            chain_of[id(x)] = (chain, xp)
            for c, f, i in kids(x):
                walk(c, chain + [x], f"{xp}/@{f}[{i or 0}]{type(c).__name__}")

        walk(r, [], f"/@root[0]{type(r).__name__}")
        for x in subtree(r):
            chain, xp = chain_of[id(x)]
            if x.detached:
                continue
            anc = list(reversed(chain))
            got = list(x.ancestors())
            if len(got) != len(anc) or any(a is not b for a, b in zip(got, anc)):
                errs.append(("ancestors", "ancestors() differs from the chain of actual positions"))
                continue
            if x.get_depth() != len(chain):
                errs.append(("get_depth", f"get_depth() {x.get_depth()} != {len(chain)}"))
            for k, a in enumerate(anc):
                if not a.is_ancestor(x):
                    errs.append(("is_ancestor", "an actual ancestor is not reported by is_ancestor"))
                if x.get_depth(relative_to=a) != k + 1:
                    errs.append(("get_depth-relative", "relative depth differs from the chain"))
            if ok and x.xpath != xp:
                errs.append(("xpath", f"calculated xpath {x.xpath!r} != {xp!r}"))
            # the negative side: a node that is NOT on the chain (a node elsewhere, a twin of an ancestor, a stale or detached
            # object) is no ancestor; told apart by whether it is content-equal to an actual ancestor (the known ==-confusion)
            on_chain = {id(a) for a in anc} | {id(x)}
            for y in nodes:
                if id(y) in on_chain or not kids(y):
                    continue
                try:
                    said = y.is_ancestor(x)
                except Exception:  # noqa: BLE001
                    continue
                if said:
                    like = any(type(a) is type(y) and a.content_id == y.content_id for a in anc)
                    errs.append(("non-ancestor-reported" + ("-twin-of-ancestor" if like else ""),
                                 "is_ancestor is True for a node that is not on the chain of actual positions"))
                    break
    return list(dict.fromkeys(errs))


def postconditions(w, op, nodes_before, pre):
    errs = []
    k = op[0]
    if k in ("leaf", "mkopt", "mktup", "mktup2", "mklst", "mkreq", "mk3"):
        newest = [s for s in w.slots if s is not None and not any(s is n for n in nodes_before)]
        for n in newest:
            if n.detached:
                errs.append(("new-node-detached", "a plainly constructed node is not attached"))
    if k == "detach" and pre["receiver_attached_root"]:
        for x in subtree(nodes_before[op[1]]):
            if not x.detached and N.get_any(x.id) is x:
                errs.append(("detach-left-attached", "detach() of a root left a node of its subtree attached"))
                break
    return errs
