"""Regenerate MANIFEST.json from the check modules that exist (python -m mc.manifest)."""
from __future__ import annotations

import importlib
import json
import os

from .core import ROOT

ALL = [f"C{i:02d}" for i in range(1, 21)]
PY = "/venv/bin/python"


def main():
    checks, na = [], []
    for pid in ALL:
        path = os.path.join(ROOT, "mc", "checks", pid.lower() + ".py")
        if not os.path.exists(path):
            na.append({"property_id": pid, "reason": "check not built yet (planned in DESIGN.md section 3); nothing is claimed for it"})
            continue
        mod = importlib.import_module(f"mc.checks.{pid.lower()}")
        checks.append(
            {
                "property_id": pid,
                "quick_cmd": f"cd /verif && {PY} -m mc.run {pid} --tier quick",
                "thorough_cmd": f"cd /verif && {PY} -m mc.run {pid} --tier thorough",
                "evidence_file": f"/verif/evidence/{pid}.json",
                "replay_cmd_template": f"cd /verif && {PY} -m mc.run {pid} --replay {{path}}",
                "engine": getattr(mod, "ENGINE", "E1"),
                "level_claimed": {
                    "category": "model_checking",
                    "text": getattr(mod, "LEVEL_TEXT", mod.__doc__.strip().split("\n\n", 1)[-1].strip()),
                    "design_ref": f"DESIGN.md section 3, {pid}",
                },
                "level_note": getattr(mod, "LEVEL_NOTE", "; ".join(getattr(mod, "ASSUMPTIONS", [])) or "reference model and enumerator are trusted"),
                "technique": getattr(mod, "TECHNIQUE", "bounded exhaustive enumeration of inputs executed on the implementation, compared with a reference model"),
            }
        )
    man = {
        "version": 1,
        "setup_cmd": f"cd /verif && {PY} -m mc.run --selftest",
        "hooks": {
            "guard": "PYOAK_VERIF",
            "enable": "no hooks are needed: every observable is public API; checks import pyoak from $VERIF_REPO/src (default /repo/src) compiled from source on every run",
            "baseline_off_cmd": "cd /repo && /venv/bin/python -m pytest -ra -q -p no:cacheprovider --timeout=900 --continue-on-collection-errors",
            "source_commits": [],
            "add_only": True,
        },
        "engines": [
            {"name": "E1", "path": "/verif/mc/desc.py", "serves_properties": [c["property_id"] for c in checks if c["engine"] == "E1"],
             "kind_free_text": "bounded-exhaustive enumeration of inputs/programs (tree descriptors, xpaths, patterns, annotations, class hierarchies) executed on the real code and compared with reference models"},
            {"name": "E2", "path": "/verif/mc/explore.py", "serves_properties": [c["property_id"] for c in checks if c["engine"] != "E1"],
             "kind_free_text": "explicit-state breadth-first exploration of operation histories over real objects with replay-from-scratch, canonical state hashing, reference model stepped alongside; fault (deviation) enumeration layered on top"},
        ],
        "checks": checks,
        "not_applicable": na,
        "notes": "All checks: python -m mc.run <id> --tier quick|thorough; VERIF_SEED rotates samples and extra hash seeds only; VERIF_REPO selects the tree under test (default /repo). known_findings.json lists recorded defects and 'fixed:' entries.",
    }
    with open(os.path.join(ROOT, "MANIFEST.json"), "w") as f:
        json.dump(man, f, indent=1)
    print(f"MANIFEST.json: {len(checks)} checks, {len(na)} not_applicable")


if __name__ == "__main__":
    main()
