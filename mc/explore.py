"""E2: explicit-state breadth-first exploration of operation histories over the real objects.

A state is the history that reaches it.  Every transition is executed on a world rebuilt by replaying
its prefix from a reset world (live objects do not copy), the reference model is stepped alongside by the
model's `apply`, and canonical state keys deduplicate.  Levels are expanded in parallel by forked workers;
each worker rebuilds its worlds from scratch, so workers share nothing but the imported code.

A model object provides
    fresh()                      -> world                 (after resetting every global the property can observe)
    ops(world)                   -> list of JSON-able op tuples enabled in this state (deterministic order)
    apply(world, op, rec, hist)  -> "ok" | "prune" | "viol" | "probe"   runs the REAL code, steps the reference, judges
                                    ("probe": judged, but the state it leads to is not expanded - a one-step look-ahead)
    canon(world)                 -> hashable canonical form (see DESIGN 2.3 for why it keeps concrete ids)
`apply` with rec=None is a silent replay step (no judging, no counting).
"""
from __future__ import annotations

import hashlib
import multiprocessing as mp
import time

from .core import Rec, Watchdog

_MODEL = None
_WATCHDOG_S = 20
_TIMEOUTS = 0          # operations that did not finish, in this (worker) process
_MAX_TIMEOUTS = 2      # after that many the worker stops executing operations: the run is cut short and says so


def _digest(key) -> str:
    return hashlib.sha1(repr(key).encode()).hexdigest()


def _replay(model, hist):
    w = model.fresh()
    for op in hist:
        st = model.apply(w, op, None, None)
        if st != "ok":
            raise RuntimeError(f"replay divergence: prefix op {op!r} of {hist!r} gave {st!r}")
    return w


def judged_step(model, w, op, rec, hist, cfg):
    """One judged transition under the watchdog (also used by the checks' replay functions, so that a non-terminating
    operation reproduces as the same violation instead of hanging the replay)."""
    try:
        with Watchdog(_WATCHDOG_S):
            return model.apply(w, op, rec, hist)
    except Watchdog.Timeout:
        case = {"history": [list(o) for o in hist] + [list(op)], "cfg": cfg.get("label")}
        case.update(getattr(model, "case_extras", lambda: {})())
        rec.violation(f"{cfg.get('pid', '?')}|timeout|{op[0]}", case, f"operation did not finish within {_WATCHDOG_S}s (non-terminating on a world of a handful of nodes)")
        return "timeout"


def _expand(args):
    """Expand a chunk of frontier states: returns (successors, rec-result)."""
    global _TIMEOUTS
    chunk, cfg, last_level = args
    model = _MODEL
    rec = Rec(cfg)
    succ = []
    for hist, key in chunk:
        if _TIMEOUTS >= _MAX_TIMEOUTS:
            rec.count("states_skipped_after_timeouts")
            continue
        w = _replay(model, hist)
        if _digest(model.canon(w)) != key:
            raise RuntimeError(f"replay divergence: history {hist!r} reached a different canonical state")
        ops = model.ops(w)
        del w
        for op in ops:
            if _TIMEOUTS >= _MAX_TIMEOUTS:
                rec.count("transitions_skipped_after_timeouts")
                continue
            w = _replay(model, hist)
            rec.count("transitions")
            rec.count("traces")
            st = judged_step(model, w, op, rec, hist, cfg)
            if st == "timeout":
                st = "viol"
                _TIMEOUTS += 1
            rec.outcome(f"{op[0]}:{st}")
            if st == "ok":
                succ.append((hist + (op,), _digest(model.canon(w))))
            elif st == "prune":
                rec.count("inadmissible")
            elif st == "probe":
                rec.count("probe_transitions")   # judged like any other transition, its result state is not expanded further
            del w
    return succ, rec.result()


def merge_into(rec: Rec, res: dict) -> None:
    rec.c.update(res.get("counters", {}))
    rec.outcomes.update(res.get("outcomes", {}))
    for v in res.get("violations", []):
        rec.vcount[v["sig"]] += res.get("vcount", {}).get(v["sig"], 1)
        if v["sig"] not in rec.viol or v.get("rank", 0) < rec.viol[v["sig"]].get("rank", 0):
            rec.viol[v["sig"]] = v
    for s in res.get("samples", []):
        if len(rec.samples) < 4:
            rec.samples.append(s)
    rec.notes += res.get("notes", [])
    rec.instances.update(res.get("instances", []))


def explore(model, depth: int, rec: Rec, cfg: dict, procs: int = 1, max_states: int | None = None, deadline_s: float | None = None):
    """Breadth-first to `depth` operations.  Violating transitions are reported and not expanded."""
    global _MODEL, _TIMEOUTS
    _MODEL = model
    _TIMEOUTS = 0
    t0 = time.time()
    w0 = model.fresh()
    k0 = _digest(model.canon(w0))
    del w0
    seen = {k0}
    frontier = [((), k0)]
    pool = mp.get_context("fork").Pool(procs) if procs > 1 else None
    completed = 0
    try:
        for level in range(depth):
            if not frontier:
                break
            if deadline_s is not None and time.time() - t0 > deadline_s:
                rec.cap(f"time budget reached before level {level + 1}; histories of length <= {completed} fully covered")
                break
            nchunks = max(1, min(len(frontier), procs * 8))
            chunks = [frontier[i::nchunks] for i in range(nchunks)]
            jobs = [(c, cfg, level == depth - 1) for c in chunks]
            results = pool.map(_expand, jobs, chunksize=1) if pool else [_expand(j) for j in jobs]
            nxt = []
            for succ, res in results:
                merge_into(rec, res)
                for hist, key in succ:
                    if key not in seen:
                        seen.add(key)
                        nxt.append((hist, key))
            nxt.sort(key=lambda hk: repr(hk[0]))
            frontier = nxt
            completed = level + 1
            rec.extra.setdefault("states_per_level", []).append(len(seen))
            if any("|timeout|" in sg for sg in rec.viol):
                # a non-terminating operation is reported; every further one would cost a full watchdog period
                rec.cap(f"an operation did not terminate at history length {completed}: exploration stopped there "
                        f"({rec.c.get('states_skipped_after_timeouts', 0)} states / {rec.c.get('transitions_skipped_after_timeouts', 0)} transitions of that level skipped)")
                break
            if max_states is not None and len(seen) > max_states and level < depth - 1:
                rec.cap(f"state cap {max_states} reached; histories of length <= {completed} fully covered")
                break
    finally:
        if pool:
            pool.close()
            pool.join()
    rec.count("states", len(seen))
    rec.bound["max_history_length"] = max(rec.bound.get("max_history_length", 0), completed)
    return seen
