"""C18 - legacy parent-aware trees stay structurally consistent through any history.

E2: breadth-first exploration of every history of <= D successful public legacy operations (construction over
existing children in every field shape, attach, detach, detach_self, replace of a property / of each child field /
of a forbidden key, replace_with a node or None, duplicate attached and detached, transform visitors and transformers
with identity / rewrite / remove / raise rules, drop) over 4 slots, with every node reachable from a slot (attached
roots and subtrees, detached and stale nodes, twins) as receiver and argument.  In every reached state that does not
put one node object at two positions the structural invariant is evaluated on the real objects: children of attached
nodes are attached and report the right parent / field / index, parents hold their children at the stated position,
lookup returns each attached node, content_id equals that of an independently rebuilt equal tree, and ancestors /
get_depth / is_ancestor / calculated xpath agree with the chain of actual positions.
"""
from __future__ import annotations

from ..core import Rec
from ..explore import explore, judged_step
from ..legacy_model import Model

PID = "C18"
ENGINE = "E2"
MODE = "c18"
TECHNIQUE = "explicit-state BFS over legacy operation histories on the real objects, structural invariant evaluated in every reached state, canonical state hashing with concrete ids"
RULE = (
    "states = distinct canonical worlds (per reachable node: class, value, children, id, original id, attached flag, parent link, "
    "content_id; slot contents; registry keys) reached by histories of <= D operations; transitions = operations executed on a "
    "world rebuilt by replaying the prefix; rejected operations and inadmissible results (one object at two positions, "
    "undocumented exceptions) are counted and not expanded.  non-trivial = successful state-changing transitions judged"
)
ASSUMPTIONS = [
    "operations whose arguments contain the receiver or one of its ancestors are not offered (they build a cycle; replace_with(ancestor) does not terminate)",
    "a state in which one node object sits at two positions is pruned, not judged (excluded by the statement)",
]
DEPTH = {"quick": 5, "thorough": 5}


def plan(tier, seed):
    cfgs = [{"depth": DEPTH[tier], "universe": "full", "procs": 16, "label": "full universe", "pid": PID, "mode": MODE},
            # the same alphabet over a leaf and an inner class that is falsy in a boolean context (one step shallower)
            {"depth": DEPTH[tier] - 1, "universe": "falsy", "procs": 16, "label": "falsy inner class", "pid": PID, "mode": MODE},
            # the same histories with calculate_xpath() run after every prefix operation: the judged operation changes a tree
            # whose stored xpaths were up to date, and the invariant calculates them again (one step shallower)
            {"depth": DEPTH[tier] - 1, "universe": "full", "procs": 16, "label": "xpaths calculated before every step", "pid": PID, "mode": MODE,
             "precalc": True}]
    if tier == "thorough":
        cfgs.append({"depth": DEPTH[tier] + 1, "universe": "small", "procs": 16, "label": "2-class universe, one more step", "pid": PID, "mode": MODE,
                     "max_states": 400000})
    return cfgs


def run_shard(cfg):
    rec = Rec(cfg)
    m = Model(cfg["mode"], cfg["universe"], precalc=bool(cfg.get("precalc")))
    explore(m, cfg["depth"], rec, cfg, procs=cfg.get("procs", 1), max_states=cfg.get("max_states"))
    return rec.result()


def replay(case, cfg):
    rec = Rec(cfg)
    m = Model(case.get("mode", MODE), case.get("universe", "full"), precalc=bool(case.get("precalc")))
    hist = [tuple(o) for o in case["history"]]
    w = m.fresh()
    for op in hist[:-1]:
        if m.apply(w, op, None, None) != "ok":
            return []
    judged_step(m, w, hist[-1], rec, tuple(hist[:-1]), cfg)
    return rec.result()["violations"]
