"""C17 - XPath and pattern text is either compiled or rejected with the definition error.

E1 over strings: (a) every concatenation of <= K tokens over the token alphabets of the two grammars (incl. an
unknown class name, the name of a serializable non-node class, a regex that does not compile, blanks); (b) a core of
grammar-derived well-formed texts, which must be accepted; (c) every single-token mutation (delete, duplicate, swap
neighbours, replace by each alphabet token, at every position) of every core text.  For every text: ASTXpath(text)
returns a usable object (findall and match run on a probe tree) or raises ASTXpathDefinitionError and nothing else;
validate_pattern / NodeMatcher.from_pattern raise nothing, MultiPatternMatcher raises only ASTPatternDefinitionError,
the three agree on acceptance and an accepted matcher runs on the probe nodes; compiling the same text again (cache
kept, cache cleared) and inserting blanks between tokens leave verdict and matching behaviour unchanged.
"""
from __future__ import annotations

import itertools
import re
from dataclasses import dataclass

from .. import boot  # noqa: F401
from pyoak.match import pattern as PM
from pyoak.match import xpath as XM
from pyoak.match.error import ASTPatternDefinitionError, ASTXpathDefinitionError
from pyoak.node import NODE_REGISTRY, ASTNode

from ..core import Rec
from ..ref import pattern as RP

PID = "C17"
RULE = (
    "texts: all concatenations of <= K tokens (xpath alphabet 13 tokens, pattern alphabet 20 tokens), the well-formed core "
    "texts, and all single-token mutations of the core texts; states = distinct texts per grammar; transitions = compile calls "
    "(3 entry points for patterns, 2 compilations + probes for xpaths); non-trivial = distinct texts that are accepted by the "
    "implementation and contain at least 3 tokens"
)
ASSUMPTIONS = ["a blank may be inserted only between tokens of the grammar, never inside a name, a number or a quoted regex, and not before a leading '/' of an xpath"]
K = {"quick": (4, 4), "thorough": (5, 5)}
NSHARDS = 16


@dataclass(frozen=True)
class QL(ASTNode):
    x: str = "a"


@dataclass(frozen=True)
class QP(ASTNode):
    x: str = "a"
    items: tuple[ASTNode, ...] = ()
    one: ASTNode | None = None


XTOK = ["/", "//", "@", "x", "QL", "[", "]", "0", "12", " ", "MemoryTextSource", "Nope", "*"]
PTOK = ["(", ")", "QL", "*", "|", "@", "x", "items", "=", "[", "]", "->", "c", "$", "None", '"a"', '"("', " ", "MemoryTextSource", "Nope"]
# quoted regexes with escaped quotes / backslashes at the start, in the middle and at the very end of the content
QUOTED = ['"a\\""', '"\\"a"', '"a\\"b"', '"\\""', '"a\\\\"', '"\\\\d"']

XCORE = [["/", "QL"], ["//", "QL"], ["QL"], ["/", "@", "items", "[", "0", "]", "QL"], ["//", "@", "items", "[", "12", "]", "QL"], ["/", "QP", "/", "@", "one", " ", "QL"],
         ["/", "QP", "//", "QL"], ["//", "[", "]", "QL"], ["@", "items", "/", "QL"], ["/", "@", "items", "[", "1", "]", "/", "@", "x", " ", "QL"], ["/", "/", "/", "QL"],
         ["//", "QP", "/", "[", "0", "]", "QP", "/", "QL"]]
PCORE = [["(", "QL", ")"], ["(", "*", ")"], ["(", "QL", "|", "QP", ")"], ["(", "QL", " ", "@", "x", ")"], ["(", "QL", " ", "@", "x", "=", '"a"', ")"],
         ["(", "QL", " ", "@", "x", "->", "c", ")"], ["(", "QP", " ", "@", "items", "=", "[", "]", ")"], ["(", "QP", " ", "@", "items", "=", "[", "*", "]", "->", "c", ")"],
         ["(", "QP", " ", "@", "items", "=", "[", "(", "QL", ")", "->", "c", " ", "$", "c", " ", "*", "]", ")"], ["(", "QP", " ", "@", "one", "=", "None", ")"],
         ["(", "QP", " ", "@", "one", "=", "(", "QL", " ", "@", "x", "=", '"a"', "->", "v", ")", "->", "c", ")"],
         ["(", "QP", " ", "@", "x", "->", "v", " ", "@", "one", "=", "(", "*", " ", "@", "x", "=", "$", "v", ")", ")"],
         ["(", "QP", " ", "@", "items", "=", "[", "(", "*", ")", " ", "(", "QL", ")", " ", "*", "->", "rest", "]", "->", "all", ")"],
         ["(", "*", " ", "@", "nosuch", ")"], ["(", "QP", " ", "@", "items", "=", "[", "None", " ", '"a"', "]", ")"]] + \
    [["(", "QL", " ", "@", "x", "=", q, ")"] for q in QUOTED] + [["(", "QL", " ", "@", "x", "=", q, "->", "c", ")"] for q in QUOTED[:2]]


def probes():
    NODE_REGISTRY.clear()
    leaf = QL("a")
    tree = QP("p", items=(QL("a"), QL("b"), QP("q", items=(QL("a"),))), one=QL("a"))
    return tree, [leaf, tree, tree.items[2], QP("a", one=QL("a"), items=()), QL("ab")]


def xpath_behaviour(xp, tree):
    found = [id(n) for n in xp.findall(tree)]
    t = tree.to_tree()
    ms = [xp.match(t, n) for n in [tree] + [i.node for i in tree.dfs()]]
    return (tuple(found), tuple(ms))


def check_xpath(rec, text, tree, core=False):
    rec.count("transitions"); rec.count("traces"); rec.count("evaluations")
    case = {"grammar": "xpath", "text": text}
    outs = []
    for attempt in range(2):
        try:
            xp = XM.ASTXpath(text)
            outs.append(("ok", xpath_behaviour(xp, tree)))
        except ASTXpathDefinitionError:
            outs.append(("rejected", None))
        except Exception as e:  # noqa: BLE001
            rec.violation(f"C17|xpath|escapes|{type(e).__name__}", case, f"ASTXpath({text!r}) / its use raised {type(e).__name__}: {str(e)[:150]}")
            return None
    XM._AST_XPATH_CACHE.pop(text, None)
    try:
        xp = XM.ASTXpath(text)
        outs.append(("ok", xpath_behaviour(xp, tree)))
    except ASTXpathDefinitionError:
        outs.append(("rejected", None))
    except Exception as e:  # noqa: BLE001
        rec.violation(f"C17|xpath|escapes|{type(e).__name__}", case, f"{type(e).__name__}: {str(e)[:150]}")
        return None
    if not (outs[0] == outs[1] == outs[2]):
        rec.violation("C17|xpath|recompile-differs", case, f"compiling the same text again gave {[o[0] for o in outs]} / different matching behaviour")
    if core and outs[0][0] != "ok":
        rec.violation("C17|xpath|grammar-text-rejected", case, "a text produced by the documented grammar was rejected")
    # the verdict itself: accepted exactly when the documented grammar derives the text (recognizer written from the grammar,
    # shared with the legacy check - both modules document the same grammar)
    from .c20 import legacy_well_formed

    wf = legacy_well_formed(text, {"QL", "QP", "ASTNode"})
    if (outs[0][0] == "ok") is not wf:
        rec.violation("C17|xpath|" + ("ill-formed-accepted" if not wf else "well-formed-rejected"), case,
                      f"ASTXpath({text!r}) was {'accepted' if outs[0][0] == 'ok' else 'rejected'}; the documented grammar {'derives' if wf else 'does not derive'} the text")
    rec.outcome(f"xpath:{outs[0][0]}")
    return outs[0]


def pattern_behaviour(m, nodes):
    out = []
    for n in nodes:
        ok, caps = m.match(n)
        out.append((bool(ok), tuple(sorted((k, id(v) if isinstance(v, ASTNode) else repr(v)) for k, v in caps.items()))))
    return tuple(out)


def check_pattern(rec, text, nodes, core=False, expect=None):
    rec.count("transitions"); rec.count("traces"); rec.count("evaluations")
    case = {"grammar": "pattern", "text": text}
    res = {}
    try:
        res["validate"] = bool(PM.validate_pattern(text)[0])
    except Exception as e:  # noqa: BLE001
        rec.violation(f"C17|pattern|validate_pattern-raises|{type(e).__name__}", case, f"{type(e).__name__}: {str(e)[:150]}")
        return None
    beh = []
    for attempt in ("first", "cached", "cleared"):
        if attempt == "cleared":
            PM._MATCHER_CACHE.pop(text, None)
        try:
            m, _ = PM.NodeMatcher.from_pattern(text)
        except Exception as e:  # noqa: BLE001
            rec.violation(f"C17|pattern|from_pattern-raises|{type(e).__name__}", case, f"{type(e).__name__}: {str(e)[:150]}")
            return None
        if m is None:
            beh.append(("rejected", None))
        else:
            try:
                beh.append(("ok", pattern_behaviour(m, nodes)))
            except Exception as e:  # noqa: BLE001
                rec.violation(f"C17|pattern|match-raises|{type(e).__name__}", case, f"accepted pattern raised at match time: {type(e).__name__}: {str(e)[:150]}")
                return None
    res["from_pattern"] = beh[0][0] == "ok"
    if not (beh[0] == beh[1] == beh[2]):
        rec.violation("C17|pattern|recompile-differs", case, f"compiling the same text again gave {[b[0] for b in beh]} / different matching behaviour")
    try:
        PM.MultiPatternMatcher([("r", text)])
        res["multi"] = True
    except ASTPatternDefinitionError:
        res["multi"] = False
    except Exception as e:  # noqa: BLE001
        rec.violation(f"C17|pattern|multi-raises|{type(e).__name__}", case, f"MultiPatternMatcher raised {type(e).__name__}: {str(e)[:150]}")
        return None
    if len(set(res.values())) != 1:
        rec.violation("C17|pattern|entry-points-disagree", case, f"acceptance differs: {res}")
    if core and not res["validate"]:
        rec.violation("C17|pattern|grammar-text-rejected", case, "a text produced by the documented grammar was rejected")
    if expect is not None and res["validate"] is not expect:
        rec.violation(f"C17|pattern|{'ill-formed-accepted' if res['validate'] else 'well-formed-rejected'}", case,
                      f"captures / variables: the text is {'well' if expect else 'ill'}-formed (unique captures, variables after their captures) but was {'accepted' if res['validate'] else 'rejected'}")
    rec.outcome(f"pattern:{'ok' if res['validate'] else 'rejected'}")
    return beh[0]


def placement_patterns():
    """Structurally valid patterns with captures and variables at every place of a template; they are well-formed
    (to be accepted) iff capture names are unique and every variable follows its capture in text order."""
    vals = [("re", "a"), ("var", "x"), ("var", "y")]
    caps = [None, "x", "y"]
    for v1, v2, v3 in itertools.product(vals, repeat=3):
        for c1, c2, c3, c4, c5, c6 in itertools.product(caps, repeat=6):
            yield ("tree", ("QP",), (
                ("x", v1, c1),
                ("one", ("tree", "*", (("x", v2, c2),)), c3),
                ("items", ("seq", ((("tree", "*", ()), c4), (v3, None)), ("tail", c5)), c6),
            ))


def mutations(tokens, alphabet):
    n = len(tokens)
    for i in range(n):
        yield tokens[:i] + tokens[i + 1:]
        yield tokens[:i] + [tokens[i], tokens[i]] + tokens[i + 1:]
        if i + 1 < n:
            yield tokens[:i] + [tokens[i + 1], tokens[i]] + tokens[i + 2:]
        for t in alphabet:
            if t != tokens[i]:
                yield tokens[:i] + [t] + tokens[i + 1:]


def with_blanks(tokens, ws="  "):
    """Whitespace between all tokens (tokens are grammar tokens, so this never splits a name or number)."""
    out = []
    for i, t in enumerate(tokens):
        if t == " ":
            continue
        out.append(t)
    return ws.join(out)


CAPTURE_NAMES = ["first_child", "_c", "__c", "a__b", "c_c_c", "_a_b", "zz", "_", "c_", "C", "c1", "1c", "fooBar", "c-d", ""]
WHITESPACE = ["  ", "\t", "\n", "\r\n", " \n  ", "\f"]   # every kind of whitespace both grammars ignore (common.WS)


def plan(tier, seed):
    return [{"k": i, "of": NSHARDS, "kx": K[tier][0], "kp": K[tier][1]} for i in range(NSHARDS)]


def run_shard(cfg):
    rec = Rec(cfg)
    tree, nodes = probes()
    k, of = cfg["k"], cfg["of"]
    seen_x, seen_p = set(), set()
    idx = 0

    def housekeeping():
        if len(XM._AST_XPATH_CACHE) > 2000:
            XM._AST_XPATH_CACHE.clear()
        if len(PM._MATCHER_CACHE) > 2000:
            PM._MATCHER_CACHE.clear()

    def do_x(text, core=False, ntok=0):
        if text in seen_x:
            return None
        seen_x.add(text)
        rec.count("states")
        rec.sample({"grammar": "xpath", "text": text})
        r = check_xpath(rec, text, tree, core)
        if r and r[0] == "ok" and ntok >= 3:
            rec.count("nontrivial")
        housekeeping()
        return r

    def do_p(text, core=False, ntok=0):
        if text in seen_p:
            return None
        seen_p.add(text)
        rec.count("states")
        rec.sample({"grammar": "pattern", "text": text})
        r = check_pattern(rec, text, nodes, core)
        if r and r[0] == "ok" and ntok >= 3:
            rec.count("nontrivial")
        housekeeping()
        return r

    # (b) core + whitespace variants, (c) single-token mutations
    for ci, toks in enumerate(XCORE):
        if ci % of == k:
            rec.rank = ci
            base = do_x("".join(toks), core=True, ntok=len(toks))
            lead = toks[0] in ("/", "//")
            for ws in WHITESPACE:
                sp = with_blanks(toks, ws) + ("" if ws == "  " else ws)   # also trailing
                r2 = do_x(sp, core=True, ntok=len(toks))
                if base and r2 and base != r2:
                    rec.violation("C17|xpath|whitespace-changes-meaning", {"grammar": "xpath", "text": "".join(toks), "spaced": sp}, "whitespace between tokens changed verdict or matching behaviour")
    for ci, toks in enumerate(PCORE):
        if ci % of == k % max(1, min(of, len(PCORE))) or ci % of == k:
            rec.rank = ci
            base = do_p("".join(toks), core=True, ntok=len(toks))
            for ws in WHITESPACE:
                sp = with_blanks(toks, ws) + ("" if ws == "  " else ws)
                r2 = do_p(sp, core=True, ntok=len(toks))
                if base and r2 and base != r2:
                    rec.violation("C17|pattern|whitespace-changes-meaning", {"grammar": "pattern", "text": "".join(toks), "spaced": sp}, "whitespace between tokens changed verdict or matching behaviour")
    for toks in XCORE:
        for m in mutations(toks, XTOK):
            idx += 1
            if idx % of == k:
                rec.rank = 1000 + idx
                do_x("".join(m), ntok=len(m))
    for toks in PCORE:
        for m in mutations(toks, PTOK):
            idx += 1
            if idx % of == k:
                rec.rank = 1000 + idx
                do_p("".join(m), ntok=len(m))
    # (b'') spellings of a capture name: every name the documented grammar produces (lower-case letters and underscores, at any
    # place but the end) is accepted wherever the one-letter name is; other spellings are only run for totality
    for ci, toks in enumerate(PCORE):
        if "c" not in toks:
            continue
        for ni, name in enumerate(CAPTURE_NAMES):
            idx += 1
            if idx % of == k:
                rec.rank = 3000 + idx
                renamed = [name if t == "c" and i and toks[i - 1] in ("->", "$") else t for i, t in enumerate(toks)]
                good = re.fullmatch(r"[_a-z]*[a-z]", name) is not None
                for text in ("".join(renamed), with_blanks(renamed, " ")):
                    do_p(text, core=good, ntok=len(toks))
                rec.outcome(f"capture-name:{'grammar' if good else 'other'}")
    # (b') captures and variables at every place of a template: accepted iff well-formed
    for p in placement_patterns():
        idx += 1
        if idx % of == k:
            rec.rank = 5000 + idx
            text = RP.render(p)
            if text not in seen_p:
                seen_p.add(text)
                rec.count("states")
                exp = RP.well_formed(p)
                r = check_pattern(rec, text, nodes, expect=exp)
                rec.outcome(f"placement:{'well' if exp else 'ill'}-formed")
                housekeeping()
    # (a) all token strings up to the bound
    for n in range(1, cfg["kx"] + 1):
        for combo in itertools.product(XTOK, repeat=n):
            idx += 1
            if idx % of == k:
                rec.rank = 10**6 + idx
                do_x("".join(combo), ntok=n)
    for n in range(1, cfg["kp"] + 1):
        for combo in itertools.product(PTOK, repeat=n):
            idx += 1
            if idx % of == k:
                rec.rank = 10**7 + idx
                do_p("".join(combo), ntok=n)
    rec.bound = {"max_tokens_xpath": cfg["kx"], "max_tokens_pattern": cfg["kp"], "core_texts": len(XCORE) + len(PCORE)}
    return rec.result()


def replay(case, cfg):
    rec = Rec(cfg)
    tree, nodes = probes()
    if case["grammar"] == "xpath":
        a = check_xpath(rec, case["text"], tree)
        if "spaced" in case:
            b = check_xpath(rec, case["spaced"], tree)
            if a and b and a != b:
                rec.violation("C17|xpath|whitespace-changes-meaning", case, "reproduced")
    else:
        exp = None
        for p in placement_patterns():
            if RP.render(p) == case["text"]:
                exp = RP.well_formed(p)
                break
        a = check_pattern(rec, case["text"], nodes, expect=exp)
        if "spaced" in case:
            b = check_pattern(rec, case["spaced"], nodes)
            if a and b and a != b:
                rec.violation("C17|pattern|whitespace-changes-meaning", case, "reproduced")
    # grammar-text-rejected needs the core flag
    for toks in XCORE:
        if "".join(toks) == case["text"] or with_blanks(toks) == case["text"]:
            XM._AST_XPATH_CACHE.clear()
            check_xpath(rec, case["text"], tree, core=True)
    for toks in PCORE:
        if "".join(toks) == case["text"] or with_blanks(toks) == case["text"]:
            PM._MATCHER_CACHE.clear()
            check_pattern(rec, case["text"], nodes, core=True)
    return rec.result()["violations"]
