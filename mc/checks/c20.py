"""C20 - legacy traversal and legacy XPath follow the same semantics as their successors.

E1: every attached legacy tree with <= N nodes over leaf / sub-leaf / inner(optional, tuple, list child fields) /
required-child classes, plus a tree with a 13-element tuple; every node of the tree as start node; skip_self x prune
subset x filter subset x {pre-order, post-order, level order}, gather over class sets - compared with the C05 reference
orders with the start node prepended unless skipped (it is offered to filter and prune like any other node).  Legacy
ASTXpath.match(node) for every xpath generated as in C07 and every node, compared with the C07 reference DP along the
parent chain (all index digits significant); malformed texts must raise the legacy definition error only;
calculate_xpath assigns every node the path spelled by its chain of fields, indices and classes.
"""
from __future__ import annotations

import itertools
import warnings
from dataclasses import dataclass, field

from .. import boot  # noqa: F401

warnings.simplefilter("ignore", DeprecationWarning)

from pyoak.legacy.match.error import ASTXpathDefinitionError  # noqa: E402
from pyoak.legacy.match.xpath import ASTXpath  # noqa: E402
from pyoak.legacy.node import AwareASTNode as N  # noqa: E402
from pyoak.origin import NO_ORIGIN  # noqa: E402

from ..core import Rec
from .c05 import FalsyPredicate  # noqa: E402
from ..desc import ONE, OPT, PROP, VAR, C, F, Universe  # noqa: E402
from ..ref import traversal as RT  # noqa: E402
from ..ref import xpath as RX  # noqa: E402

PID = "C20"
RULE = (
    "traversal: all attached trees <= N nodes (+ a 13-wide tuple tree), every node as start, skip_self x all (prune, filter) "
    "subset pairs for <= 3 positions (families beyond) x dfs / dfs bottom-up / bfs, gather over class sets.  xpath: all step "
    "sequences of length 1-2 over the full alphabet and length 3 over a reduced one x shaped legacy trees x every node, the length-3 family also x every tree with <= 4 nodes; all token "
    "strings <= 4 tokens for rejection.  states = distinct (tree, start) and (xpath, tree) cases; transitions = traversal runs and "
    "match calls compared with the references; non-trivial = traversal cases with >= 2 positions and a non-empty prune set, and "
    "(xpath, tree) pairs matched by a non-empty proper subset of the nodes"
)
ASSUMPTIONS = ["trees are attached (built by plain construction); predicates are pure functions of the node"]
N_ = {"quick": 4, "thorough": 5}
NSHARDS = 16


@dataclass
class GL(N):
    v: int = 0


@dataclass
class GS(GL):
    pass


@dataclass
class GI(N):
    opt: N | None = None
    items: tuple[N, ...] = ()
    lst: list[N] = field(default_factory=list)
    child: N | None = None

    def __bool__(self) -> bool:  # falsy in a boolean context although it holds children
        return False


@dataclass
class GR(N):
    req: N = None  # type: ignore[assignment]


U = Universe("c20", [
    C("GL", GL, [F("v", PROP, alphabet=(0,))]),
    C("GS", GS, [F("v", PROP, alphabet=(0,))], bases=("GL",)),
    C("GI", GI, [F("opt", OPT), F("items", VAR, maxlen=2), F("lst", VAR, maxlen=2, seq=list), F("child", OPT)]),
    C("GR", GR, [F("req", ONE)]),
])
ORIGIN = lambda p, d: NO_ORIGIN  # noqa: E731


def L():
    return ("GL", (("v", 0),))


def S():
    return ("GS", (("v", 0),))


def I(opt=None, items=(), lst=(), child=None):  # noqa: E743
    return ("GI", (("opt", opt), ("items", tuple(items)), ("lst", tuple(lst)), ("child", child)))


def shaped():
    wide = I(opt=L(), items=[L(), S()] * 6 + [I(items=[L(), L()])], lst=[S(), L()], child=S())
    return [I(opt=L(), items=[S(), L()], lst=[L()], child=I(child=L())),
            I(items=[I(items=[I(items=[L(), S()])]), L()], child=I(opt=S(), child=I(child=L()))),
            wide,
            ("GR", (("req", I(opt=("GR", (("req", L()),)), lst=[I(lst=[L(), S()])])),))]


def plan(tier, seed):
    return [{"k": i, "of": NSHARDS, "n": N_[tier], "tier": tier} for i in range(NSHARDS)]


def build(d):
    N._nodes.clear()
    index = {}
    root = U.build(d, origin=ORIGIN, index=index)
    return root, index


def check_traversal(rec, d, light):
    root, index = build(d)
    pos = U.positions(d)
    desc_at = dict(pos)
    for start_path, start_desc in pos:
        start = index[start_path]
        rel = [(p[len(start_path):], dd) for p, dd in pos if p[: len(start_path)] == start_path]
        paths = [p for p, _ in rel]            # () is the start node itself
        node_of = {p: index[start_path + p] for p in paths}
        pid = {id(n): p for p, n in node_of.items()}
        case = {"tree": d, "start": [list(s) for s in start_path]}
        rec.count("states")
        rec.sample(case)
        if len(paths) <= 3:
            subs = [frozenset(s) for k in range(len(paths) + 1) for s in itertools.combinations(paths, k)]
            combos = [(pr, fl) for pr in subs for fl in subs]
        else:
            full = frozenset(paths)
            prs = [frozenset(), full] + [frozenset([p]) for p in paths] + ([] if light else [frozenset(s) for s in itertools.combinations(paths, 2)])
            combos = [(pr, fl) for pr in prs for fl in dict.fromkeys([full, frozenset(), pr, full - pr] + ([] if light else [frozenset([p]) for p in paths]))]
        for pr, fl in combos:
            rec.count("evaluations")
            if len(paths) >= 2 and pr:
                rec.count("nontrivial")
            for skip in (False, True):
                prune_p = lambda p: p in pr  # noqa: E731
                filt_p = lambda p: p in fl  # noqa: E731
                for fn in ("dfs", "dfs-bu", "bfs"):
                    if fn == "dfs":
                        exp = RT.pre_order(U, start_desc, prune_p, filt_p)
                    elif fn == "dfs-bu":
                        exp = RT.post_order(U, start_desc, prune_p, filt_p)
                    else:
                        exp = RT.level_order(U, start_desc, prune_p, filt_p)
                    if not skip:
                        # the start node is offered to filter and prune like any other node; a pruned start yields at most itself
                        if () in pr:
                            exp = []
                        head = [()] if () in fl else []
                        exp = (exp + head) if fn == "dfs-bu" else (head + exp)
                    calls = []
                    # predicates are callable objects that are falsy in a boolean context ("no predicate" is None)
                    pf = FalsyPredicate(lambda n: (calls.append(pid.get(id(n))), pid.get(id(n)) in pr)[1]) if pr else None
                    ff = FalsyPredicate(lambda n: (calls.append(pid.get(id(n))), pid.get(id(n)) in fl)[1])
                    rec.count("transitions"); rec.count("traces")
                    if fn == "bfs":
                        got = [pid.get(id(n)) for n in start.bfs(prune=pf, filter=ff, skip_self=skip)]
                    else:
                        got = [pid.get(id(n)) for n in start.dfs(prune=pf, filter=ff, bottom_up=(fn == "dfs-bu"), skip_self=skip)]
                    rec.outcome(f"{fn}:{min(len(got), 6)}")
                    if got != exp:
                        rec.violation(f"C20|{fn}|sequence", dict(case, skip_self=skip), f"legacy {fn}(skip_self={skip}) differs from the reference order",
                                      expected=[_pp(p) for p in exp], observed=[_pp(p) if p is not None else "<outside>" for p in got])
                    offered = set(RT.offered(U, start_desc, prune_p)) if (skip or () not in pr) else set()
                    if not skip:
                        offered.add(())
                    if set(calls) - offered:
                        rec.violation(f"C20|{fn}|visited-below-pruned", dict(case, skip_self=skip), "a predicate was called below a pruned node (or outside the subtree)")
        # gather
        present = list(dict.fromkeys(dd[0] for _, dd in rel))
        for cs in dict.fromkeys([(c,) for c in present] + [("GL",), ("N",), tuple(present[:2])]):
            pycs = tuple(N if c == "N" else U.classes[c].pycls for c in cs)
            for exact in (False, True):
                for skip in (False, True):
                    allpos = [p for p, _ in rel]
                    extras = [None, frozenset()] + [frozenset([p]) for p in allpos[:3]]
                    prunes = [None] + [frozenset([p]) for p in allpos[:3]]
                    for ex, prs in itertools.product(extras, prunes):
                        rec.count("evaluations"); rec.count("transitions"); rec.count("traces")

                        def filt_p(p, cs=cs, exact=exact, ex=ex):
                            cn = dict(rel)[p][0]
                            hit = (cn in cs) if exact else any(c == "N" or U.isinstance(cn, c) for c in cs)
                            return hit and (ex is None or p in ex)

                        pset = prs or frozenset()
                        exp = RT.pre_order(U, start_desc, lambda p: p in pset, filt_p)
                        if not skip:
                            if () in pset:
                                exp = []
                            if filt_p(()):
                                exp = [()] + exp
                        kw = {}
                        if ex is not None:
                            kw["extra_filter"] = FalsyPredicate(lambda n, ex=ex: pid.get(id(n)) in ex)
                        if prs is not None:
                            kw["prune"] = FalsyPredicate(lambda n, prs=prs: pid.get(id(n)) in prs)
                        got = [pid.get(id(n)) for n in start.gather(pycs if len(pycs) > 1 else pycs[0], exact_type=exact, skip_self=skip, **kw)]
                        if got != exp:
                            rec.violation("C20|gather|sequence", dict(case, classes=list(cs), exact=exact, skip_self=skip, extra=ex is not None, prune=prs is not None),
                                          "legacy gather differs from the restricted pre-order stream",
                                          expected=[_pp(p) for p in exp], observed=[_pp(p) if p is not None else "<outside>" for p in got])

def _pp(p):
    return "/".join(f"{f}[{i}]" if i is not None else f for f, i in p) or "<start>"


class TreeCase:
    def __init__(self, d):
        self.d = d
        self.index = {}
        self.root = U.build(d, origin=ORIGIN, index=self.index)
        self.pos = U.positions(d)
        dmap = dict(self.pos)
        self.chains = {}
        for p, _ in self.pos:
            chain = [(dmap[()][0], None, None)]
            for k in range(1, len(p) + 1):
                chain.append((dmap[p[:k]][0], p[k - 1][0], p[k - 1][1]))
            self.chains[p] = chain


def is_instance(cname, cls):
    return cls == "AwareASTNode" or U.isinstance(cname, cls)


def check_xpath(rec, tcs, steps, text, family="shaped"):
    rec.count("evaluations")
    try:
        xp = ASTXpath(text)
    except Exception as e:  # noqa: BLE001
        rec.violation("C20|xpath|compile", {"xpath": text}, f"well-formed xpath rejected: {type(e).__name__}: {str(e)[:150]}")
        return
    for tc in tcs:
        rec.count("states")
        hits = 0
        for p, _ in tc.pos:
            rec.count("transitions"); rec.count("traces")
            exp = RX.matches(steps, tc.chains[p], is_instance)
            hits += exp
            got = xp.match(tc.index[p])
            if got is not exp:
                kind = "index>=10" if any(s[2] is not None and s[2] >= 10 for s in steps) else "semantics"
                rec.violation(f"C20|xpath|match|{kind}", {"xpath": text, "tree": tc.d, "node": _pp(p), "family": family}, f"legacy match({_pp(p)}) is {got}, documented semantics say {exp}")
        if 0 < hits < len(tc.pos):
            rec.count("nontrivial")
        rec.outcome(f"xpath-hits:{min(hits, 5)}")


def check_calculate_xpath(rec, d):
    root, index = build(d)
    pos = U.positions(d)
    dmap = dict(pos)
    rec.count("evaluations"); rec.count("transitions"); rec.count("traces")
    case = {"tree": d}
    for p, _ in pos[1:]:
        before = [index[q].xpath for q, _ in pos]
        if index[p].calculate_xpath() is not False or [index[q].xpath for q, _ in pos] != before:
            rec.violation("C20|calculate_xpath|non-root", case, "calculate_xpath on a non-root receiver must return False and change nothing")
    if root.calculate_xpath() is not True:
        rec.violation("C20|calculate_xpath|root", case, "calculate_xpath on an attached root must return True")
        return
    for p, _ in pos:
        exp = f"/@root[0]{dmap[()][0]}" + "".join(f"/@{f}[{i or 0}]{dmap[p[:k + 1]][0]}" for k, (f, i) in enumerate(p))
        if index[p].xpath != exp:
            rec.violation("C20|calculate_xpath|path", dict(case, node=_pp(p)), f"xpath {index[p].xpath!r}, chain of positions spells {exp!r}")


def kids20(n):
    out = []
    if isinstance(n, GI):
        if n.opt is not None:
            out.append((n.opt, "opt", None))
        out += [(c, "items", i) for i, c in enumerate(n.items)]
        out += [(c, "lst", i) for i, c in enumerate(n.lst)]
        if n.child is not None:
            out.append((n.child, "child", None))
    elif isinstance(n, GR) and n.req is not None:
        out.append((n.req, "req", None))
    return out


def check_recalculate(rec, d):
    """Short histories: calculate_xpath, one edit below the root, calculate_xpath again - every node must then carry
    the path spelled by the chain of its ACTUAL position (read off the objects by plain attribute access)."""
    pos = U.positions(d)
    for p, dd in pos[1:]:
        for edit in ("remove", "replace-with-new-leaf", "replace-property"):
            root, index = build(d)
            node = index[p]
            parent_desc = dict(pos)[p[:-1]]
            fkind = U.fspec(parent_desc[0], p[-1][0]).kind
            if edit == "remove" and fkind == ONE:
                continue
            if edit == "replace-property" and dd[0] not in ("GL", "GS"):
                continue
            rec.count("states"); rec.count("transitions"); rec.count("traces"); rec.count("evaluations")
            case = {"tree": d, "edit": edit, "at": [list(s_) for s_ in p]}
            if root.calculate_xpath() is not True:
                rec.violation("C20|calculate_xpath|root", case, "calculate_xpath on an attached root must return True")
                continue
            try:
                if edit == "remove":
                    node.replace_with(None)
                elif edit == "replace-with-new-leaf":
                    node.replace_with(GS(5, origin=NO_ORIGIN))
                else:
                    node.replace(v=node.v + 1)
            except Exception as e:  # noqa: BLE001
                rec.outcome(f"recalculate:{edit}:{type(e).__name__}")
                del e
                continue
            rec.outcome(f"recalculate:{edit}:ok")
            if root.calculate_xpath() is not True:
                rec.violation("C20|calculate_xpath|root", case, "calculate_xpath on an attached root must return True")
                continue
            stack = [(root, f"/@root[0]{type(root).__name__}")]
            while stack:
                x, xp = stack.pop()
                if x.xpath != xp:
                    rec.violation("C20|calculate_xpath|stale-after-edit", case, f"after the edit and a second calculate_xpath a node carries {x.xpath!r}; its chain of positions spells {xp!r}")
                    stack = []
                    break
                for c, f, i in kids20(x):
                    stack.append((c, f"{xp}/@{f}[{i or 0}]{type(c).__name__}"))


XTOK = ["/", "//", "@", "x", "GL", "[", "]", "0", "12", " ", "MemoryTextSource", "Nope", "*"]
KNOWN_CLASSES = {"GL", "GS", "GI", "GR", "AwareASTNode"}
FIELDS = [None, "items", "child", "lst", "nosuch"]
INDICES = [None, 0, 1, 12]
CLASSES = [None, "GL", "GS", "GI", "AwareASTNode"]


def check_bushy(rec):
    """Legacy traversals on an attached tree with 1 + 17 + 17^2 + 17^3 = 5220 nodes (more than any internal block size)."""
    N._nodes.clear()
    fan = 17

    def mk(depth):
        if depth == 0:
            return GL(0, origin=NO_ORIGIN)
        return GI(items=tuple(mk(depth - 1) for _ in range(fan)), origin=NO_ORIGIN)

    root = mk(3)

    def pre(n, out):
        out.append(n)
        for c in getattr(n, "items", ()):
            pre(c, out)
        return out

    def post(n, out):
        for c in getattr(n, "items", ()):
            post(c, out)
        out.append(n)
        return out

    def level(n):
        out, q = [], [n]
        while q:
            out += q
            q = [c for x in q for c in getattr(x, "items", ())]
        return out

    P, Q, L = pre(root, []), post(root, []), level(root)
    third = {id(n) for k, n in enumerate(P) if k % 3 == 0}
    case = {"tree": f"legacy, fan-out {fan}, depth 3 ({len(P)} nodes)", "start": "<start>", "bushy": True}
    runs = [("dfs", lambda: root.dfs(), P), ("dfs-bu", lambda: root.dfs(bottom_up=True), Q), ("bfs", lambda: root.bfs(), L),
            ("dfs-skip-self", lambda: root.dfs(skip_self=True), P[1:]), ("dfs-bu-skip-self", lambda: root.dfs(bottom_up=True, skip_self=True), Q[:-1]),
            ("dfs-bu-filtered", lambda: root.dfs(filter=FalsyPredicate(lambda n: id(n) in third), bottom_up=True), [n for n in Q if id(n) in third]),
            ("bfs-filtered", lambda: root.bfs(filter=FalsyPredicate(lambda n: id(n) in third)), [n for n in L if id(n) in third]),
            ("gather", lambda: root.gather(GL), [n for n in P if isinstance(n, GL)])]
    for name, mkgen, exp in runs:
        rec.count("transitions"); rec.count("traces"); rec.count("evaluations"); rec.count("states")
        got = list(mkgen())
        if len(got) != len(exp) or any(a is not b for a, b in zip(got, exp)):
            first = next((k for k, (a, b) in enumerate(zip(got, exp)) if a is not b), min(len(got), len(exp)))
            rec.violation("C20|bushy|sequence", dict(case, traversal=name), f"legacy {name}: {len(got)} nodes yielded, {len(exp)} expected; first difference at {first}")
        rec.outcome(f"bushy:{name}")
    N._nodes.clear()


import re as _re

_TOK = _re.compile(r"\s*(?:(/)|(@)|(\[)|(\])|([0-9])|([A-Za-z_][A-Za-z_0-9]*))")


def legacy_well_formed(text, known_classes):
    """Recognizer written from the documented grammar: xpath = element* self; element = '/' [@NAME] ['[' DIGIT* ']'] [CLASS];
    self = the same with the class mandatory; blanks between tokens are ignored; a text that does not start with '/' is
    '//' + text; every class name must be a known node class."""
    if not text.startswith("/"):
        text = "//" + text
    toks, pos = [], 0
    while pos < len(text):
        if text[pos:].strip() == "":
            break
        m = _TOK.match(text, pos)
        if not m:
            return False
        toks.append(("/", None) if m.group(1) else ("@", None) if m.group(2) else ("[", None) if m.group(3) else ("]", None) if m.group(4)
                    else ("D", m.group(5)) if m.group(5) else ("N", m.group(6)))
        pos = m.end()
    i, n, last_has_class = 0, len(toks), False
    if n == 0:
        return False
    while i < n:
        if toks[i][0] != "/":
            return False
        i += 1
        last_has_class = False
        if i < n and toks[i][0] == "@":
            if i + 1 >= n or toks[i + 1][0] != "N":
                return False
            i += 2
        if i < n and toks[i][0] == "[":
            i += 1
            while i < n and toks[i][0] == "D":
                i += 1
            if i >= n or toks[i][0] != "]":
                return False
            i += 1
        if i < n and toks[i][0] == "N":
            if toks[i][1] not in known_classes:
                return False
            last_has_class = True
            i += 1
    return last_has_class


def texts_of(steps, brackets=9):
    """Spellings of one step sequence: canonical; relative first step; '[]' written out for each step that has a field or a
    class but no index (one at a time)."""
    out = [RX.render(steps)]
    if steps[0][0]:
        out.append(RX.render(steps, first_relative=True))
    for i, st in enumerate(steps):
        if st[2] is None and (st[1] is not None or st[3] is not None) and brackets > 0:
            out.append(RX.render(steps, empty_brackets=(i,)))
            brackets -= 1
    return list(dict.fromkeys(out))


def run_shard(cfg):
    rec = Rec(cfg)
    idx = 0
    k, of = cfg["k"], cfg["of"]
    for j, d in enumerate(shaped()):
        if j % of == k:
            rec.rank = j
            check_traversal(rec, d, light=True)
            check_calculate_xpath(rec, d)
            check_recalculate(rec, d)
    for n in range(1, cfg["n"] + 1):
        for d in U.trees(n):
            idx += 1
            if idx % of == k:
                rec.rank = 100 + idx
                check_traversal(rec, d, light=(n >= 4))
                check_calculate_xpath(rec, d)
                check_recalculate(rec, d)
    if k == 7 % of:
        check_bushy(rec)
    # xpath
    N._nodes.clear()
    tcs = [TreeCase(d) for d in shaped()]
    fams = [RX.paths(1, FIELDS, INDICES, CLASSES), RX.paths(2, FIELDS, INDICES, CLASSES),
            RX.paths(3, [None, "items", "child"], [None, 1], [None, "GL", "GI"])]
    fams = [list(f) for f in (fams if cfg["tier"] == "thorough" else fams[:2] + [RX.paths(3, [None, "child"], [None], [None, "GL", "GI"])])]
    for fam in fams:
        for steps in fam:
            for text in texts_of(steps):
                idx += 1
                if idx % of == k:
                    rec.rank = 10**6 + idx
                    check_xpath(rec, tcs, steps, text)
    # history dimension: a REJECTED legacy xpath first (each leaves the parser / transformer at another point), then a
    # well-formed one is compiled and judged as usual
    ILL = ["//NoSuchClass", "NoSuchClass", "/GI//", "GI//@items[x]GL", "//", "/GI/@items[", "/GI//NoSuchClass/GL", "//@items[1]NoSuchClass", "/GI/"]
    fam_ar = list(RX.paths(1, [None, "items", "child"], [None, 0, 1], [None, "GL", "GI"])) + list(RX.paths(2, [None, "items"], [None, 1], [None, "GL", "GI"]))
    for ill in ILL:
        for steps in fam_ar:
            idx += 1
            if idx % of != k:
                continue
            rec.rank = 4 * 10**6 + idx
            try:
                ASTXpath(ill)
                rec.violation("C20|xpath|ill-formed-accepted", {"text": ill}, "an ill-formed legacy xpath was accepted")
                continue
            except ASTXpathDefinitionError:
                pass
            except Exception as e:  # noqa: BLE001
                rec.violation(f"C20|xpath|escapes|{type(e).__name__}", {"text": ill}, f"legacy ASTXpath({ill!r}) raised {type(e).__name__}: {str(e)[:120]}")
                continue
            check_xpath(rec, tcs[:3], steps, RX.render(steps), family="after-rejected:" + ill)
    # a tuple of 300 elements: three-digit indices on both sides of 256 (the range of CPython's shared small integers)
    huge = [TreeCase(I(opt=L(), items=[L(), S()] * 150, lst=[S(), L()]))]
    for steps in list(RX.paths(1, [None, "items", "lst"], [None, 0, 10, 100, 255, 256, 257, 258, 299], [None, "GL", "GS"])) + \
            list(RX.paths(2, [None, "items"], [None, 257], [None, "GL", "GI"])):
        for text in texts_of(steps):
            idx += 1
            if idx % of == k:
                rec.rank = 3 * 10**6 + idx
                check_xpath(rec, huge, steps, text, family="huge")
    # the three-step family again on EVERY tree with <= 4 nodes (the shaped trees above have few heterogeneous chains: a
    # step that must be the direct parent of the next one is only told apart from 'any ancestor' on chains of 4)
    small = [TreeCase(d) for n in range(1, 5) for d in U.trees(n)]
    rec.extra["xpath_small_trees"] = len(small)
    for steps in fams[2]:
        for text in texts_of(steps, brackets=1 if cfg["tier"] == "quick" else 9):
            idx += 1
            if idx % of == k:
                rec.rank = 2 * 10**6 + idx
                check_xpath(rec, small, steps, text, family="small")
    # malformed texts: only the legacy definition error may escape
    for n in range(1, (4 if cfg["tier"] == "thorough" else 3) + 1):
        for combo in itertools.product(XTOK, repeat=n):
            idx += 1
            if idx % of != k:
                continue
            text = "".join(combo)
            rec.count("evaluations"); rec.count("transitions"); rec.count("traces")
            wf = legacy_well_formed(text, KNOWN_CLASSES)
            try:
                xp = ASTXpath(text)
                for tc in tcs[:1]:
                    xp.match(tc.root)
                rec.outcome("text:accepted")
                if not wf:
                    rec.violation("C20|xpath|malformed-accepted", {"text": text}, f"legacy ASTXpath({text!r}) accepted a text the documented grammar does not derive")
            except ASTXpathDefinitionError:
                rec.outcome("text:rejected")
                if wf:
                    rec.violation("C20|xpath|well-formed-rejected", {"text": text}, f"legacy ASTXpath({text!r}) rejected a text the documented grammar derives")
            except Exception as e:  # noqa: BLE001
                rec.violation(f"C20|xpath|escapes|{type(e).__name__}", {"text": text}, f"legacy ASTXpath({text!r}) raised {type(e).__name__}: {str(e)[:120]}")
    rec.bound = {"max_nodes": cfg["n"], "xpath_steps": 3}
    return rec.result()


def replay(case, cfg):
    rec = Rec(cfg)
    if case.get("bushy"):
        check_bushy(rec)
        return rec.result()["violations"]
    if "xpath" in case:
        from .c07 import parse_rendered

        N._nodes.clear()
        if str(case.get("family", "")).startswith("after-rejected:"):
            try:
                ASTXpath(case["family"].split(":", 1)[1])
            except Exception:  # noqa: BLE001
                pass
        tcs = [TreeCase(d) for d in shaped()] if case.get("family", "shaped") == "shaped" else [TreeCase(case["tree"])]
        # (family "huge" and "small" carry their tree in the case)
        check_xpath(rec, tcs, parse_rendered(case["xpath"]), case["xpath"], family=case.get("family", "shaped"))
    elif "text" in case:
        wf = legacy_well_formed(case["text"], KNOWN_CLASSES)
        try:
            ASTXpath(case["text"])
            if not wf:
                rec.violation("C20|xpath|malformed-accepted", case, "reproduced")
        except ASTXpathDefinitionError:
            if wf:
                rec.violation("C20|xpath|well-formed-rejected", case, "reproduced")
        except Exception as e:  # noqa: BLE001
            rec.violation(f"C20|xpath|escapes|{type(e).__name__}", case, "reproduced")
    else:
        check_traversal(rec, case["tree"], light=False)
        check_calculate_xpath(rec, case["tree"])
        check_recalculate(rec, case["tree"])
    return rec.result()["violations"]
