"""C08 - pattern matching follows the documented semantics; captures are exact objects.

E1 over programs x inputs + a history dimension.  Patterns are generated from the grammar as structures (class
alternatives and subclasses, 0-2 field specs over a str property, a None-able property, an optional child, a tuple child
and a non-existent field; regexes, None, [], nested patterns to depth 3, sequences of 0-3 elements with and without a
'*' tail, captures at every admissible place, $variables after their captures), rendered to text, compiled by the
implementation and matched against a pool of nodes that contains tuples one shorter and one longer than each
sequence pattern and content-equal nodes with different origins.  Verdict and capture dict (identity of every captured
object) are compared with the recursive reference matcher of mc.ref.pattern.  History: every ordered pair of core
patterns is compiled in both cache regimes before matching; MultiPatternMatcher is run over every ordered rule list.
"""
from __future__ import annotations

import itertools
from dataclasses import dataclass

from .. import boot  # noqa: F401
from pyoak.match import pattern as PM
from pyoak.node import NODE_REGISTRY, ASTNode

from .. import zoo
from ..core import Rec
from ..ref import pattern as RP

PID = "C08"
RULE = (
    "patterns: every (class spec) x (0, 1 or 2 field specs) from the generated field-spec families, well-formed only; nodes: a "
    "fixed pool of 35 nodes; every (pattern, node) pair is matched.  history: every core pattern after each of 10 rejected definitions x 3 entry points; all ordered pairs (thorough: plus triples over 12) "
    "of a core pattern set compiled with the cache kept / cleared between / cleared after, then matched; MultiPatternMatcher over "
    "every ordered list of <= 3 core patterns, default and explicit rule order.  states = distinct pattern texts; transitions = "
    "match calls compared with the reference; non-trivial = patterns that match at least one pool node and fail at least one"
)
ASSUMPTIONS = [
    "sequence patterns are not applied to str-valued fields (a str is a Sequence; the statement is silent - A3)",
    "== on non-node captured values (tuples of nodes) is Python's ==, verified separately by C02",
]
NSHARDS = 16


@dataclass(frozen=True)
class PA(ASTNode):
    s: str = "a"
    n: str | None = None
    o: ASTNode | None = None
    items: tuple[ASTNode, ...] = ()


@dataclass(frozen=True)
class PB(PA):
    def __bool__(self) -> bool:  # falsy in a boolean context
        return False


@dataclass(frozen=True)
class PC(ASTNode):
    s: str = "a"

    def __len__(self) -> int:  # falsy in a boolean context
        return 0


CLS = {"PA": PA, "PB": PB, "PC": PC}


class LoudStr(str):
    """A str subclass whose str() differs from its characters (what members of `class Op(str, Enum)` are)."""

    def __str__(self):
        return "Op." + str.__str__(self).upper()


def pool():
    """Real nodes.  Tuples of length 0..4, twins with different origins, nested parents."""
    NODE_REGISTRY.clear()
    o1, o2 = zoo.O_A01, zoo.O_A23
    a = PA("a")
    ab = PA("ab", n="a")
    ba = PB("ba")
    e = PA("", n="")
    c = PC("a")
    cb = PC("b")
    a_o1 = PA("a", origin=o1)
    a_o2 = PA("a", origin=o2)
    out = [a, ab, ba, e, c, cb, a_o1,
           PA("a", o=PA("a")), PA("a", o=PC("a")), PB("a", o=PB("ab", n="a")),
           PA("p", items=()), PA("p", items=(PA("a"),)), PA("p", items=(PA("a"), PB("a"))),
           PA("p", items=(PA("a", origin=o1), PA("a", origin=o2))),                      # content-equal, origins differ
           PA("p", items=(PA("a"), PB("a"), PC("a"))), PA("p", items=(PB("a"), PA("a"), PA("a"), PC("b"))),
           PA("p", o=PA("a", origin=o1), items=(PA("a", origin=o2), PA("ab"))),          # o content-equals items[0]
           PA("p", o=PA("ab"), items=(PA("a"), PA("ab"))),
           PA("a", n="a", o=PA("q", items=(PA("a"),)), items=(PA("q", items=(PA("a"),)),)),   # nested parents
           PB("p", items=(PA("x", o=PA("a", items=(PC("a"),))),)),
           PA("ab", n="ab"), PC("ab"), PA("a b"), PA("a  b"), PC("a  b"), PA("7x"), PA('a"'), PA('"'), PA("\\d1"), PC("a\\"), PA("a\\b"),
           PA("w", items=tuple(PA(str(i)) for i in range(10))), PA("w", items=tuple(PA(str(i)) for i in range(11))),
           PA("w", items=tuple(PB(str(i)) if i != 10 else PC("c") for i in range(11))), PA("w", items=tuple(PA(str(i)) for i in range(12))),
           # property values whose str() is not what they look like: a quoted regex is matched against str(value)
           PA(LoudStr("a")), PC(LoudStr("ab")), PA("a", n=LoudStr("a"))]
    return out


ENV = {
    "is_node": lambda v: isinstance(v, ASTNode),
    "is_instance": lambda v, c: isinstance(v, CLS[c]),
    "content_equal": lambda a, b: type(a) is type(b) and _skey(a) == _skey(b),
    "plain_equal": lambda a, b: a == b,
}


def _skey(n):
    """Structural key computed by plain attribute access (independent of content_id)."""
    if isinstance(n, PC):
        return ("PC", n.s)
    return (type(n).__name__, n.s, n.n, None if n.o is None else _skey(n.o), tuple(_skey(x) for x in n.items))


# ---- pattern space -------------------------------------------------------------------------------------
RES = ["a", "a$", "b|ab", ".*", "", "a b", "a  b$", "\\d", "\\\\d", "a\\\\", 'a\\"', '\\"',  # incl. \d (a digit), \\d (backslash + d), a\\ (ends in an escaped backslash)
       "ab?", "ab*$", "a{0}b", "7?x"]   # a literal-looking head that the value need not start with (optional / repeated / zero-times characters)
# incl. a class listed together with its own subclass (both orders) and a repeated class
CLASSES = ["*", ("PA",), ("PB",), ("PC",), ("PA", "PC"), ("PC", "PB"), ("PA", "PB"), ("PB", "PA"), ("PB", "PC", "PA"), ("PA", "PA")]


def T(classes="*", *fields):
    return ("tree", classes, tuple(fields))


def seq(elems, tail=None):
    return ("seq", tuple(elems), tail)


ELEMS = [T("*"), T(("PA",)), T(("PB",), ("s", ("re", "a"), None)), T(("PC",))]


def prop_specs(f):
    out = [(f, None, None), (f, None, "v")]
    for r in RES:
        out.append((f, ("re", r), None))
    out.append((f, ("re", "a"), "v"))
    out.append((f, ("none",), None))
    out.append((f, ("none",), "v"))
    out.append((f, seq([]), None))
    return out


def child_specs(depth):
    out = [("o", None, None), ("o", None, "c"), ("o", ("none",), None), ("o", seq([]), None)]
    nested = [T("*"), T(("PA",)), T(("PB",)), T(("PC",), ("s", ("re", "a"), "w")), T(("PA",), ("s", ("re", "a$"), None))]
    if depth >= 2:
        nested += [T(("PA",), ("o", T(("PA",)), None)), T("*", ("items", seq([(T("*"), "z")], ("tail", None)), None)),
                   T(("PA",), ("o", T("*", ("items", seq([(T(("PC",)), "y")]), None)), "x"))]
    for t in nested:
        out.append(("o", t, None))
        out.append(("o", t, "c"))
    return out


def seq_specs(full):
    out = [("items", None, None), ("items", None, "all"), ("items", seq([]), None), ("items", seq([]), "all"), ("items", ("none",), None)]
    lens = (0, 1, 2, 3) if full else (0, 1, 2)
    for ln in lens:
        for combo in itertools.product(ELEMS if full else ELEMS[:3], repeat=ln):
            for tail in (None, ("tail", None), ("tail", "rest")):
                if ln == 0 and tail is None:
                    continue
                base = [(e, None) for e in combo]
                out.append(("items", seq(base, tail), None))
                if ln >= 1:
                    out.append(("items", seq([(combo[0], "first")] + base[1:], tail), None))
                out.append(("items", seq(base, tail), "all"))
    # long sequences (two-digit lengths): 11 elements, exact and with a tail, captures at both ends
    long_ = [(T("*"), None)] * 11
    for tail in (None, ("tail", None), ("tail", "rest")):
        out.append(("items", seq(long_, tail), None))
        out.append(("items", seq([(T("*"), "first")] + long_[1:-1] + [(T(("PA",)), "last")], tail), "all"))
    # variables referring to an earlier element of the same sequence
    out.append(("items", seq([(T("*"), "x"), (("var", "x"), None)]), None))
    out.append(("items", seq([(T("*"), "x"), (("var", "x"), None)], ("tail", "rest")), None))
    out.append(("items", seq([(T("*"), "x"), (T("*"), None), (("var", "x"), None)]), None))
    out.append(("items", seq([(T("*", ("s", None, "sv")), None), (T("*", ("s", ("var", "sv"), None)), None)]), None))
    return out


def seq_on_nonseq():
    """Sequence specs written for a field whose value is NOT a sequence (a single child or None): never a match.  String-valued
    A str-valued field is a sequence of characters (element-wise matching, as the statement says); only verdicts are judged there."""
    out = []
    for f in ("o",):
        out += [(f, seq([], ("tail", None)), None), (f, seq([], ("tail", None)), "whole"), (f, seq([], ("tail", "rest")), None), (f, seq([]), None),
                (f, seq([(T("*"), None)], ("tail", None)), None), (f, seq([(T("*"), "x")]), None)]
    # a str property has elements too (its characters): verdicts only - no captures on characters or on the rest of a string
    out += [("s", seq([(("re", "a"), None)]), None), ("s", seq([(("re", "a"), None), (("re", "b"), None)]), None), ("s", seq([], ("tail", None)), None),
            ("s", seq([(("re", "a"), None)], ("tail", None)), None), ("s", seq([(("re", "b"), None)], ("tail", None)), None), ("s", seq([]), None)]
    return out


def var_pairs():
    """Two-field specs where the second refers to a capture of the first."""
    return [
        (("s", None, "v"), ("n", ("var", "v"), None)),
        (("n", None, "v"), ("s", ("var", "v"), None)),
        (("o", None, "c"), ("items", seq([(("var", "c"), None)], ("tail", None)), None)),
        (("o", None, "c"), ("items", seq([(T("*"), None), (("var", "c"), "hit")]), None)),
        (("o", T("*", ("s", None, "inner")), None), ("s", ("var", "inner"), None)),
        (("o", T("*", ("items", None, "kids")), None), ("items", ("var", "kids"), None)),
        (("items", seq([(T("*"), "x")], ("tail", "rest")), None), ("o", ("var", "x"), None)),
        (("o", T(("PA",), ("items", seq([(T("*"), "deep")]), None)), None), ("items", seq([(T("*", ("items", seq([(("var", "deep"), None)]), None)), None)]), None)),
    ]


def patterns(tier):
    full = True
    singles = prop_specs("s") + prop_specs("n") + child_specs(3 if full else 2) + seq_specs(full) + seq_on_nonseq() + [("nosuch", None, None), ("nosuch", None, "v")]
    for cls in CLASSES:
        yield T(cls)
        for fs in singles:
            yield T(cls, fs)
    red = prop_specs("s")[:6] + prop_specs("n")[:2] + [prop_specs("n")[8]] + child_specs(1)[:6] + [s for s in seq_specs(False) if _small(s)] + seq_on_nonseq()[:3]
    for cls in (CLASSES if full else CLASSES[:3]):
        for f1, f2 in itertools.product(red, repeat=2):
            if f1[0] == f2[0] and cls not in ("*", ("PA",), ("PB", "PA")):
                continue   # one field named twice (both specs must hold, both captures are made): for three class specs
            yield T(cls, f1, f2)
        for f1, f2 in var_pairs():
            yield T(cls, f1, f2)
    if tier == "thorough":  # every ordered pair of single field specs (different fields) over the full families
        for cls in ("*", ("PA",)):
            for f1, f2 in itertools.product(singles, repeat=2):
                if f1[0] != f2[0]:
                    yield T(cls, f1, f2)
    if tier == "thorough":  # three field specs over a reduced family, every order of the fields
        red3 = {"s": prop_specs("s")[:3], "n": [prop_specs("n")[0], prop_specs("n")[8]], "o": child_specs(1)[:3] + child_specs(1)[4:6],
                "items": [s for s in seq_specs(False) if _small(s)][:9]}
        for cls in ("*", ("PA",)):
            for names in itertools.permutations(red3, 3):
                for combo in itertools.product(*(red3[n] for n in names)):
                    yield T(cls, *combo)
            for f1, f2 in var_pairs():
                for f0 in red3["s"][:2] + red3["n"][:1]:
                    if f0[0] not in (f1[0], f2[0]):
                        yield T(cls, f0, f1, f2)
                        yield T(cls, f1, f0, f2)


def _small(s):
    return s[1] is None or s[1][0] != "seq" or len(s[1][1]) <= 1


def core(tier):
    c = [
        T(("PA",), ("s", None, "v")), T(("PC",), ("s", None, None)), T("*", ("s", ("re", "a"), None), ("n", None, "w")),
        T(("PA",), ("items", seq([(T("*"), "x")], ("tail", "rest")), None)), T(("PA",), ("items", seq([], ("tail", None)), "all")),
        T(("PB",), ("o", None, None)), T(("PA", "PC"), ("s", ("re", "a$"), "v")), T("*", ("items", seq([(T("*"), None)], ("tail", None)), None)),
        T(("PA",), ("o", None, "c"), ("items", seq([(("var", "c"), None)], ("tail", None)), None)), T("*"),
        T(("PA",), ("n", None, None), ("s", None, "q")), T(("PA",), ("items", seq([], ("tail", "rest")), None)),
        # texts that differ only by blanks inside a quoted regex (must stay different patterns whatever the cache does)
        T("*", ("s", ("re", "a b"), None)), T("*", ("s", ("re", "a  b"), None)), T("*", ("s", ("re", "a b$"), "v")), T("*", ("s", ("re", "a  b$"), "v")),
    ]
    if tier == "thorough":
        c += [T(cls, fs) for cls in (("PA",), "*") for fs in (prop_specs("s")[:4] + seq_specs(False)[:12])]
    return c


# ---- evaluation ----------------------------------------------------------------------------------------
def same_caps(got, exp):
    if set(got) != set(exp):
        return False
    for k, e in exp.items():
        g = got[k]
        if isinstance(e, tuple):
            if not isinstance(g, tuple) or len(g) != len(e) or any(a is not b for a, b in zip(g, e)):
                return False
        elif g is not e:
            return False
    return True


def show_caps(c, nodes):
    def one(v):
        if isinstance(v, tuple):
            return [one(x) for x in v]
        if isinstance(v, ASTNode):
            return f"<{type(v).__name__} s={v.s!r} id={v.id}>"
        return repr(v)

    return {k: one(v) for k, v in c.items()}


def judge(rec, p, text, matcher, nodes, tag="match"):
    hit = miss = 0
    for ni, node in enumerate(nodes):
        rec.count("transitions")
        rec.count("traces")
        exp_ok, exp_caps = RP.match(p, node, ENV)
        try:
            ok, caps = matcher.match(node)
        except Exception as e:  # noqa: BLE001
            rec.violation(f"C08|{tag}|raises|{type(e).__name__}", {"pattern": text, "node": ni}, f"match raised {type(e).__name__}: {str(e)[:200]}")
            continue
        hit += exp_ok
        miss += not exp_ok
        if bool(ok) is not exp_ok:
            rec.violation(f"C08|{tag}|verdict|{_feature(p)}", {"pattern": text, "node": ni}, f"match is {ok}, documented semantics say {exp_ok}")
        elif not same_caps(dict(caps), exp_caps):
            rec.violation(f"C08|{tag}|captures|{_feature(p)}", {"pattern": text, "node": ni}, "capture dict differs from the objects matched",
                          expected=show_caps(exp_caps, nodes), observed=show_caps(dict(caps), nodes))
        if type(caps) is dict:   # the capture dict belongs to the caller: what is added to it must not show in any later result
            caps["scribbled by the caller"] = node
    return hit, miss


def _feature(p):
    txt = RP.render(p)
    if "*]" in txt or "* ->" in txt:
        return "seq-tail"
    if "[" in txt:
        return "seq"
    if "$" in txt:
        return "var"
    if "->" in txt:
        return "capture"
    return "plain"


def compile_(rec, text, case=None):
    m, msg = PM.NodeMatcher.from_pattern(text)
    if m is None:
        rec.violation("C08|compile" + ("|after-rejected" if case else ""), case or {"pattern": text}, f"well-formed pattern rejected: {msg[:200]}")
    return m


def plan(tier, seed):
    return [{"k": i, "of": NSHARDS, "tier": tier} for i in range(NSHARDS)]


def run_shard(cfg):
    rec = Rec(cfg)
    tier = cfg["tier"]
    nodes = pool()
    idx = 0
    seen = set()
    # (1) every pattern x every node, each compiled in an empty cache
    for p in patterns(tier):
        if not RP.well_formed(p):
            continue
        text = RP.render(p)
        if text in seen:
            continue
        seen.add(text)
        mine = idx % cfg["of"] == cfg["k"]
        idx += 1
        if not mine:
            continue
        rec.rank = idx
        rec.count("states")
        rec.count("evaluations")
        rec.sample({"pattern": text})
        PM._MATCHER_CACHE.clear()
        m = compile_(rec, text)
        if m is None:
            continue
        hit, miss = judge(rec, p, text, m, nodes)
        if hit and miss:
            rec.count("nontrivial")
        rec.outcome(f"hits:{min(hit, 6)}")
    # (2) history: ordered pairs of core patterns, three cache regimes
    cs = [(p, RP.render(p)) for p in core(tier)]
    jdx = 0
    for (p1, t1), (p2, t2) in itertools.product(cs, repeat=2):
        mine = jdx % cfg["of"] == cfg["k"]
        jdx += 1
        if not mine:
            continue
        rec.rank = 10**7 + jdx
        for regime in ("kept", "cleared-between", "cleared-after"):
            rec.count("evaluations")
            PM._MATCHER_CACHE.clear()
            m1 = compile_(rec, t1)
            if regime == "cleared-between":
                PM._MATCHER_CACHE.clear()
            m2 = compile_(rec, t2)
            if regime == "cleared-after":
                PM._MATCHER_CACHE.clear()
            if m1 is None or m2 is None:
                continue
            judge(rec, p1, f"{t1}   [compiled before {t2}; cache {regime}]", m1, nodes, tag="history")
            judge(rec, p2, f"{t2}   [compiled after {t1}; cache {regime}]", m2, nodes, tag="history")
            if regime == "kept":
                m1b = compile_(rec, t1)  # cached object again
                if m1b is not None:
                    judge(rec, p1, f"{t1}   [recompiled from cache after {t2}]", m1b, nodes, tag="history")
    # (2b) a REJECTED definition first (syntactically or semantically ill-formed, using the capture names of the core
    # patterns), through each entry point, then every core pattern compiled fresh: verdict and captures as in isolation
    ILL = ["(PA @s -> v @n -> v)", "(PA @items=[$c *] @o -> c)", "(PA @s -> v @o=(Nope))", "(PA @s -> q @o=(Nope @s -> w))", "(PA @s -> rest @s -> rest)",
           "(PA @items=[(*) -> x (*) -> x])", "(PA @s -> all", "(PA @o -> c @items=[(*) -> c])", "(PA @s -> w @items=[* -> rest] @n -> w)", "(PA @s -> v -> v)"]
    for ill in ILL:
        for via in ("from_pattern", "validate_pattern", "multi"):
            for (p2, t2) in cs:
                mine = jdx % cfg["of"] == cfg["k"]
                jdx += 1
                if not mine:
                    continue
                rec.rank = 4 * 10**7 + jdx
                rec.count("evaluations")
                PM._MATCHER_CACHE.clear()
                try:
                    if via == "from_pattern":
                        bad = PM.NodeMatcher.from_pattern(ill)[0]
                    elif via == "validate_pattern":
                        bad = None if not PM.validate_pattern(ill)[0] else "accepted"
                    else:
                        try:
                            PM.MultiPatternMatcher([("ok", "(*)"), ("bad", ill)])
                            bad = "accepted"
                        except PM.ASTPatternDefinitionError:
                            bad = None
                except Exception as e:  # noqa: BLE001
                    rec.violation(f"C08|history|ill-formed-escapes|{type(e).__name__}", {"pattern": ill, "via": via}, f"{type(e).__name__}: {str(e)[:150]}")
                    continue
                if bad is not None:
                    rec.violation("C08|history|ill-formed-accepted", {"pattern": ill, "via": via}, "an ill-formed definition was accepted")
                    continue
                m2 = compile_(rec, t2, {"pattern": t2, "after_rejected": ill, "via": via})
                if m2 is not None:
                    judge(rec, p2, f"{t2}   [compiled after the rejected definition {ill} via {via}]", m2, nodes, tag="history")
                rec.outcome("after-rejected")
    # (3) MultiPatternMatcher: first matching rule in the given order
    if tier == "thorough":  # ordered triples of compilations over the first 12 core patterns, cache kept
        for trio in itertools.product(cs[:12], repeat=3):
            mine = jdx % cfg["of"] == cfg["k"]
            jdx += 1
            if not mine:
                continue
            rec.rank = 3 * 10**7 + jdx
            rec.count("evaluations")
            PM._MATCHER_CACHE.clear()
            comp = [(p, t, compile_(rec, t)) for p, t in trio]
            for i, (p, t, m) in enumerate(comp):
                if m is not None:
                    judge(rec, p, f"{t}   [compilation {i + 1} of {[x[1] for x in comp]}; cache kept]", m, nodes, tag="history")
    ms = (cs[:6] + cs[12:14]) if tier == "quick" else cs[:14]
    for ln in (1, 2, 3):
        for combo in itertools.permutations(range(len(ms)), ln):
            mine = jdx % cfg["of"] == cfg["k"]
            jdx += 1
            if not mine:
                continue
            rec.rank = 2 * 10**7 + jdx
            rec.count("evaluations")
            PM._MATCHER_CACHE.clear()
            defs = [(f"r{i}", ms[i][1]) for i in combo]
            try:
                mpm = PM.MultiPatternMatcher(defs)
            except Exception as e:  # noqa: BLE001
                rec.violation("C08|multi|compile", {"rules": defs}, f"{type(e).__name__}: {str(e)[:200]}")
                continue
            defs_before = list(defs)
            for order in (None, [n for n, _ in reversed(defs)]):
                order_before = None if order is None else list(order)
                names = [n for n, _ in defs] if order is None else order
                for ni, node in enumerate(nodes):
                    rec.count("transitions")
                    rec.count("traces")
                    exp = None
                    for name in names:
                        ok, caps = RP.match(ms[int(name[1:])][0], node, ENV)
                        if ok:
                            exp = (name, caps)
                            break
                    try:
                        # the rule order is an Iterable[str]: handed over as a list, a tuple, an iterator or a generator in turn
                        how = ni % 4
                        arg = order if order is None or how == 0 else (tuple(order) if how == 1 else (iter(order) if how == 2 else (x for x in order)))
                        got = mpm.match(node, arg)
                    except Exception as e:  # noqa: BLE001
                        rec.violation(f"C08|multi|raises|{type(e).__name__}", {"rules": defs, "order": order, "node": ni}, str(e)[:200])
                        continue
                    if defs != defs_before or (order is not None and order != order_before):
                        rec.violation("C08|multi|arguments-modified", {"rules": defs_before, "order": order_before, "node": ni}, "the rule list / order list handed in was modified by the library")
                        break
                    if (got is None) != (exp is None) or (got is not None and (got[0] != exp[0] or not same_caps(dict(got[1]), exp[1]))):
                        rec.violation("C08|multi|result", {"rules": defs, "order": order, "node": ni},
                                      "MultiPatternMatcher result differs from the first rule the reference accepts",
                                      expected=None if exp is None else [exp[0], show_caps(exp[1], nodes)],
                                      observed=None if got is None else [got[0], show_caps(dict(got[1]), nodes)])
    rec.bound = {"max_field_specs": 2, "max_sequence_elements": 3, "max_field_specs_thorough": 3, "nesting_depth": 3, "pool_nodes": len(nodes)}
    return rec.result()


def replay(case, cfg):
    """Re-run the whole shard family the case belongs to is unnecessary: patterns are re-generated and looked up by text."""
    rec = Rec(cfg)
    nodes = pool()
    tier = cfg.get("tier", "quick")
    if "after_rejected" in case or "via" in case:
        cfg2 = dict(cfg, k=0, of=1, tier=tier)
        return [v for v in run_shard(cfg2)["violations"] if v["sig"].startswith("C08|history") or v["sig"].startswith("C08|compile")]
    if "pattern" in case:
        text = case["pattern"].split("   [")[0]
        for p in itertools.chain(patterns("thorough"), core("thorough")):
            if RP.render(p) == text:
                if "   [" in case["pattern"]:
                    # history case: rebuild both compilations
                    cfg2 = dict(cfg, k=0, of=1, tier=tier)
                    return [v for v in run_shard(cfg2)["violations"] if v["sig"].startswith("C08|history") or v["sig"].startswith("C08|compile")]
                PM._MATCHER_CACHE.clear()
                m = compile_(rec, text)
                if m is not None:
                    judge(rec, p, text, m, nodes)
                break
        return rec.result()["violations"]
    cfg2 = dict(cfg, k=0, of=1, tier=tier)
    return [v for v in run_shard(cfg2)["violations"] if v["sig"].startswith("C08|multi")]
