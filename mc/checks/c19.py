"""C19 - a rejected legacy operation changes nothing.

E2 + E3 (deviation = an operation the library rejects): the same exploration of legacy histories as C18; in every
reached state EVERY operation instance is executed, and whenever it is rejected with a documented error (duplicate
children, parent collision, registry or id collision, forbidden replace keys, replace_with violations, transformation
errors) the full observable snapshot taken before - for every reachable node: attached?, parent object, parent field
and index, field values by identity, id, original id, content_id; plus the registry view - must equal the snapshot
after.  The rejection point is part of the alphabet (offending child first / middle / last, direct child or grandchild,
attached or detached arguments, visitor raising at each node).
"""
from __future__ import annotations

from ..core import Rec
from ..explore import explore, judged_step
from ..legacy_model import Model

PID = "C19"
ENGINE = "E2"
MODE = "c19"
TECHNIQUE = "explicit-state BFS over legacy operation histories with every rejected operation instance as a deviation; before/after snapshot equality on the real objects"
RULE = (
    "states = distinct canonical worlds (per reachable node: class, value, children, id, original id, attached flag, parent link, "
    "content_id; slot contents; registry keys) reached by histories of <= D operations; transitions = operations executed on a "
    "world rebuilt by replaying the prefix; rejected operations and inadmissible results (one object at two positions, "
    "undocumented exceptions) are counted and not expanded.  non-trivial = rejected operation instances judged (before/after snapshots compared)"
)
ASSUMPTIONS = [
    "operations whose arguments contain the receiver or one of its ancestors are not offered (they build a cycle; replace_with(ancestor) does not terminate)",
    "a state in which one node object sits at two positions is pruned, not judged (excluded by the statement)",
]
DEPTH = {"quick": 5, "thorough": 5}


def plan(tier, seed):
    cfgs = [{"depth": DEPTH[tier], "universe": "full", "procs": 16, "label": "full universe", "pid": PID, "mode": MODE},
            # the same alphabet over a leaf and an inner class that is falsy in a boolean context (one step shallower)
            {"depth": DEPTH[tier] - 1, "universe": "falsy", "procs": 16, "label": "falsy inner class", "pid": PID, "mode": MODE}]
    if tier == "thorough-extended":  # not registered: depth 6 on the 2-class universe takes 15 min and adds 0.8 M violating instances
        cfgs.append({"depth": DEPTH[tier] + 1, "universe": "small", "procs": 16, "label": "2-class universe, one more step", "pid": PID, "mode": MODE,
                     "max_states": 400000})
    return cfgs


def run_shard(cfg):
    rec = Rec(cfg)
    m = Model(cfg["mode"], cfg["universe"])
    explore(m, cfg["depth"], rec, cfg, procs=cfg.get("procs", 1), max_states=cfg.get("max_states"))
    return rec.result()


def replay(case, cfg):
    rec = Rec(cfg)
    m = Model(case.get("mode", MODE), case.get("universe", "full"))
    hist = [tuple(o) for o in case["history"]]
    w = m.fresh()
    for op in hist[:-1]:
        if m.apply(w, op, None, None) != "ok":
            return []
    judged_step(m, w, hist[-1], rec, tuple(hist[:-1]), cfg)
    return rec.result()["violations"]
