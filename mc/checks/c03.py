"""C03 - the registry holds exactly the live, not-detached nodes under unique ids.

E2: breadth-first exploration of every history of <= D public operations (construct leaf / subclass leaf /
parent over any reachable node, duplicate, dataclasses.replace, ASTNode.replace with non-comparable change,
comparable change, child change and an invalid keyword, detach, detach_self, dict round trip, drop + collection)
over 3 slots, with every node reachable from a slot (children, stale originals, detached nodes) as receiver,
for several ID_DIGEST_SIZE values including 1 where different contents collide.  A reference registry
(dict id -> object, liveness by weakref) is stepped alongside and compared in every state.
"""
from __future__ import annotations

import dataclasses
import gc
import itertools
import weakref
from dataclasses import dataclass, field

from .. import boot  # noqa: F401
from pyoak import config
from pyoak.node import NODE_REGISTRY, ASTNode
from pyoak.origin import NO_ORIGIN

from .. import zoo
from ..core import Rec
from ..explore import explore, judged_step

PID = "C03"
ENGINE = "E2"
TECHNIQUE = "explicit-state BFS over operation histories on the real registry, reference registry model stepped alongside, canonical state hashing"
RULE = (
    "states = distinct canonical worlds (per slot the DFS listing of object number, class, fields, origin, concrete id, "
    "registered-as-itself flag, plus the sorted set of live registry keys) reached by histories of <= D operations; "
    "transitions = operations executed on the real code from a world rebuilt by replaying the prefix; every transition is "
    "compared with the reference registry. non-trivial = transitions executed in a world where at least two tracked "
    "objects (alive or not) share one id string"
)
ASSUMPTIONS = [
    "CPython reference counting frees unreferenced nodes immediately; gc.collect() breaks cycles (A2)",
    "'same id every time' is judged only for digest sizes >= 8 where distinct contents do not collide (A1, A4)",
]
DEPTH = {"quick": 6, "thorough": 7}
DIGESTS = {"quick": [8, 1], "thorough": [1, 2, 8, 64]}
NSLOTS = 3


@dataclass(frozen=True)
class RL(ASTNode):
    v: int = 0
    nc: int = field(default=0, compare=False)

    def __post_init__(self) -> None:
        # validates AFTER the base initialisation: a replace() that fails here fails late,
        # when the new node already exists (and is registered)
        ASTNode.__post_init__(self)
        if self.nc == -1:
            raise ValueError("negative nc")
        if self.nc < -1:
            raise ZeroDivisionError("a failure of another kind in a model's own validation")


@dataclass(frozen=True)
class RS(RL):
    def __bool__(self) -> bool:  # falsy in a boolean context
        return False


@dataclass(frozen=True)
class RP(ASTNode):
    c: ASTNode | None = None

    def __len__(self) -> int:  # falsy in a boolean context although it may hold a child
        return 0


@dataclass(frozen=True)
class RT(ASTNode):  # tuple parent, used by the scripted same-id-pair family (the BFS universe keeps to chains)
    items: tuple[ASTNode, ...] = ()


ORIG = [NO_ORIGIN, zoo.O_A01]
_VALS_CACHE: dict = {}


def colliding_values(dsize: int):
    """First pair of leaf values whose ids collide at this digest size (searched on the running implementation);
    (0, 1) when nothing collides among the first 400 values."""
    if dsize in _VALS_CACHE:
        return _VALS_CACHE[dsize]
    old = config.ID_DIGEST_SIZE
    config.ID_DIGEST_SIZE = dsize
    try:
        seen = {}
        pair = (0, 1)
        if dsize <= 1:
            for v in range(400):
                NODE_REGISTRY.clear()
                i = RL(v).id
                if i in seen:
                    pair = (seen[i], v)
                    break
                seen[i] = v
        NODE_REGISTRY.clear()
    finally:
        config.ID_DIGEST_SIZE = old
    _VALS_CACHE[dsize] = pair
    return pair


def readonly_battery(n):
    from pyoak.match.pattern import NodeMatcher
    from pyoak.visitor import ASTVisitor

    class _V(ASTVisitor[int]):
        def generic_visit(self, node):
            return 1 + sum(self.visit(c) for c in node.get_child_nodes())

    list(n.dfs()), list(n.bfs()), list(n.gather(ASTNode)), n.children, list(n.get_properties()), n.to_properties_dict()
    t = n.to_tree()
    t.get_depth(n), t.is_in_tree(n), t.get_xpath(n)
    n.find("//RL"), list(n.findall("//RL")), list(n.findall("/RP/@c RL"))
    from pyoak.match.xpath import ASTXpath

    [ASTXpath("//RL").match(n, i.node) for i in n.dfs()], ASTXpath("/RP").match(n, n), ASTXpath("//RL").match(t, n)
    NodeMatcher.from_pattern("(* @v -> x)")[0].match(n)
    # captures whose values are NODES (the matched child, the node itself through a parent pattern)
    NodeMatcher.from_pattern("(RP @c -> kid)")[0].match(n), NodeMatcher.from_pattern("(RP @c=(* @nc -> hidden) -> kidb)")[0].match(n)
    from pyoak.match.pattern import MultiPatternMatcher

    MultiPatternMatcher([("leaf", "(RL @v -> val)"), ("parent", "(RP @c=(* @v -> inner) -> held)")]).match(n)
    _V().visit(n)
    n == n, hash(n), repr(n), n.is_equal(n), n.as_dict(), n.to_json(), n.to_yaml(), n.to_msgpck()


class World:
    def __init__(self):
        self.slots = [None] * NSLOTS
        self.tracked = []        # (weakref, id string) of every object ever created in this history
        self.reg = {}            # reference registry: id -> weakref of the object expected under it
        self.shared_ids = False  # some id string was carried by two tracked objects

    def track(self, n, registered=True):
        for wr, _ in self.tracked:
            if wr() is n:
                return
        if any(i == n.id for _, i in self.tracked):
            self.shared_ids = True
        self.tracked.append((weakref.ref(n), n.id))
        if registered:
            self.reg[n.id] = weakref.ref(n)

    def is_reg(self, n) -> bool:
        w = self.reg.get(n.id)
        return w is not None and w() is n

    def unreg(self, n):
        if self.is_reg(n):
            del self.reg[n.id]

    def reachable(self):
        # no recursive closure here: a self-referencing closure is a reference cycle that would keep `out` alive
        out, seen = [], set()
        for s in self.slots:
            n = s
            while n is not None and id(n) not in seen:
                seen.add(id(n))
                out.append(n)
                n = n.c if isinstance(n, RP) else None
        return out

    def free(self):
        for i, s in enumerate(self.slots):
            if s is None:
                return i
        return None


def subtree(n):
    out = [n]
    while isinstance(n, RP) and n.c is not None:
        n = n.c
        out.append(n)
    return out


def okey(o):
    return "-" if o is NO_ORIGIN else o.fqn


def sig_of(n):
    """class, origin, comparable content, direct children (content and origin) - the 'same id every time' key."""
    if isinstance(n, RP):
        kid = None if n.c is None else (skey(n.c), okey(n.c.origin))
        return ("RP", okey(n.origin), kid)
    return (type(n).__name__, okey(n.origin), n.v)


def skey(n):
    if isinstance(n, RP):
        return ("RP", None if n.c is None else skey(n.c))
    return (type(n).__name__, n.v)


class Model:
    def __init__(self, dsize: int):
        self.dsize = dsize
        self.vals = colliding_values(dsize)
        self.base: dict = {}  # sig -> id observed for a clean construction (digest >= 8 only)

    def base_id(self, sig):
        """Id that a node with this signature gets in an empty registry (side computation; registry restored)."""
        if sig not in self.base:
            saved = dict(NODE_REGISTRY)
            NODE_REGISTRY.clear()
            try:
                n = self._from_sig(sig)
                self.base[sig] = n.id
                del n
            finally:
                NODE_REGISTRY.clear()
                NODE_REGISTRY.update(saved)
        return self.base[sig]

    def _from_sig(self, sig):
        ok = {okey(o): o for o in ORIG}
        if sig[0] == "RP":
            kid = None
            if sig[2] is not None:
                kid = self._from_skey(sig[2][0], ok[sig[2][1]])
            return RP(c=kid, origin=ok[sig[1]])
        return {"RL": RL, "RS": RS}[sig[0]](sig[2], origin=ok[sig[1]])

    def _from_skey(self, sk, origin):
        if sk[0] == "RP":
            return RP(c=None if sk[1] is None else self._from_skey(sk[1], NO_ORIGIN), origin=origin)
        return {"RL": RL, "RS": RS}[sk[0]](sk[1], origin=origin)

    # -- world ------------------------------------------------------------------------------------------
    def fresh(self):
        config.ID_DIGEST_SIZE = self.dsize
        NODE_REGISTRY.clear()
        return World()

    def ops(self, w: World):
        ops = []
        fs = w.free()
        nodes = w.reachable()
        if fs is not None:
            ops += [("leaf", 0, 0), ("leaf", 1, 0), ("leaf", 0, 1), ("sub", 0), ("par0",)]
            for r, n in enumerate(nodes):
                ops += [("par", r), ("dup", r), ("dcrep", r), ("rt", r)]
                if isinstance(n, RL):
                    ops += [("rep_nc", r), ("rep_v", r)]
                else:
                    ops += [("rep_c", r)]
        for r, n in enumerate(nodes):
            ops += [("detach", r), ("detach_self", r), ("rep_bad", r), ("readonly", r)]
            if isinstance(n, RL):
                ops += [("rep_bad_late", r), ("rep_bad_late_other", r)]
            else:
                ops.append(("rep_bad_child", r))
        for i, s in enumerate(w.slots):
            if s is not None:
                ops.append(("drop", i))
        return ops

    def canon(self, w: World):
        num = {}
        rows = []
        for s in w.slots:
            if s is None:
                rows.append(None)
                continue
            row = []
            for n in subtree(s):
                num.setdefault(id(n), len(num))
                row.append((num[id(n)], type(n).__name__, getattr(n, "v", None), getattr(n, "nc", None), okey(n.origin), n.id,
                            NODE_REGISTRY.get(n.id) is n))
            rows.append(tuple(row))
        return (tuple(rows), tuple(sorted(NODE_REGISTRY.keys())))

    # -- one transition ---------------------------------------------------------------------------------
    def apply(self, w: World, op, rec, hist):
        judge = rec is not None
        errs = []
        k = op[0]
        fs = w.free()
        nodes = w.reachable()
        new = None
        case = None
        if judge:
            case = {"digest": self.dsize, "history": [list(o) for o in hist] + [list(op)]}
            rec.sample(case)
            rec.count("evaluations")
            if w.shared_ids:
                rec.count("nontrivial")

        def construct(make):
            """Run a construction; judge uniqueness and the 'same id every time' clause."""
            live_ids = {i for i, wr in w.reg.items() if wr() is not None}
            live_sigs = {sig_of(wr()) for wr in w.reg.values() if wr() is not None}
            n = make()
            if judge:
                if n.id in live_ids:
                    errs.append(("id-not-unique", f"new node got id {n.id} already held by a registered node"))
                if self.dsize >= 8 and sig_of(n) not in live_sigs:
                    b = self.base_id(sig_of(n))
                    if b != n.id:
                        errs.append(("id-not-repeatable", f"construction of {sig_of(n)} with no registered twin got id {n.id}; in an empty registry it gets {b}"))
            return n

        if k == "leaf":
            new = construct(lambda: RL(self.vals[op[1]], origin=ORIG[op[2]]))
            w.track(new)
        elif k == "sub":
            new = construct(lambda: RS(self.vals[op[1]]))
            w.track(new)
        elif k == "par0":
            new = construct(lambda: RP())
            w.track(new)
        elif k == "par":
            src = nodes[op[1]]
            new = construct(lambda: RP(c=src))
            w.track(new)
        elif k == "dup":
            src = nodes[op[1]]
            new = src.duplicate()
            mine = {id(x) for x in subtree(src)}
            for n in subtree(new):
                if id(n) in mine:
                    errs.append(("dup-shares", "duplicate() shares a node object with the original"))
                w.track(n)
        elif k == "dcrep":
            src = nodes[op[1]]
            new = construct(lambda: dataclasses.replace(src, nc=5) if isinstance(src, RL) else dataclasses.replace(src))
            w.track(new)
        elif k in ("rep_nc", "rep_v", "rep_c"):
            src = nodes[op[1]]
            w.unreg(src)
            if k == "rep_nc":
                new = construct(lambda: src.replace(nc=7))
            elif k == "rep_v":
                other = self.vals[1] if src.v == self.vals[0] else self.vals[0]
                new = construct(lambda: src.replace(v=other))
            else:
                new = construct(lambda: src.replace(c=None))
            w.track(new)
        elif k in ("rep_bad", "rep_bad_late", "rep_bad_late_other", "rep_bad_child"):
            src = nodes[op[1]]
            before = {i: id(o) for i, o in NODE_REGISTRY.items()}
            ids_before = [(n.id, hash(n)) for n in nodes]
            try:
                if k == "rep_bad":
                    src.replace(nosuch=1)
                elif k == "rep_bad_late":
                    src.replace(nc=-1)
                elif k == "rep_bad_late_other":
                    src.replace(nc=-2)
                else:
                    src.replace(c="not a node")      # fails while the ids are computed
                errs.append(("no-raise", "a failing replace did not raise"))
            except (TypeError, ValueError, ZeroDivisionError, AttributeError):
                pass
            after = {i: id(o) for i, o in NODE_REGISTRY.items()}
            if before != after:
                gc.collect()  # lazily: the half-built node of a late failure is garbage once the exception is gone
                after = {i: id(o) for i, o in NODE_REGISTRY.items()}
            if [(n.id, hash(n)) for n in nodes] != ids_before:
                errs.append(("failed-replace-changed-id", "a failing replace changed the id / hash of an existing node"))
            if before != after:
                errs.append(("failed-replace-changed-registry", f"registry before {sorted(before)} after {sorted(after)}"))
        elif k == "readonly":
            # operations that only read: traversal, Tree queries, xpath and pattern search, visiting, comparison,
            # hashing, printing, serializing.  The reference registry is not touched, so the invariant below fails if
            # any of them registers or unregisters something
            src = nodes[op[1]]
            readonly_battery(src)
        elif k == "detach":
            src = nodes[op[1]]
            for n in subtree(src):
                w.unreg(n)
            src.detach()
        elif k == "detach_self":
            src = nodes[op[1]]
            exp = w.is_reg(src)
            w.unreg(src)
            got = src.detach_self()
            if got is not exp:
                errs.append(("detach_self-retval", f"detach_self returned {got}, node was{'' if exp else ' not'} registered"))
        elif k == "rt":
            src = nodes[op[1]]
            d = src.as_dict()
            new = type(src).as_obj(d)

            self._rt_model(w, src, new, errs)
        elif k == "drop":
            if judge:
                # every judged drop is preceded by the read-only battery on the tree that is about to be dropped: a cache
                # filled by a read-only operation must not keep the tree alive or registered afterwards
                for x in subtree(w.slots[op[1]]):
                    readonly_battery(x)
                    x.to_tree()
                del x
            w.slots[op[1]] = None
        else:
            raise ValueError(op)
        if new is not None:
            w.slots[fs] = new
        del new, nodes
        if not judge:
            return "ok"
        errs += self.invariant(w)
        for kind, msg in errs:
            rec.violation(f"C03|{k}|{kind}", case, msg)
        return "viol" if errs else "ok"

    def _rt_model(self, w, orig, got, errs):
        while True:
            e = w.reg.get(orig.id)
            e = e() if e else None
            if e is not None:
                if got is not e:
                    errs.append(("rt-not-reused", "as_obj did not return the registered object under the serialized id"))
                return
            if got is orig or got.id != orig.id or type(got) is not type(orig):
                errs.append(("rt-new-wrong", f"as_obj built {type(got).__name__} id={got.id} for serialized {type(orig).__name__} id={orig.id}"))
            w.track(got)
            if isinstance(orig, RP) and orig.c is not None and isinstance(got, RP) and got.c is not None:
                orig, got = orig.c, got.c
            else:
                return

    def invariant(self, w: World):
        errs = []
        reach = {id(n) for n in w.reachable()}
        stale = [wr for wr, _ in w.tracked if wr() is not None and id(wr()) not in reach]
        if stale:
            gc.collect()
            for wr, i in w.tracked:
                o = wr()
                if o is not None and id(o) not in reach:
                    errs.append(("kept-alive", f"node {i} is referenced by nothing in the program but is still alive"))
                    break
        for i in list(w.reg):
            if w.reg[i]() is None:
                del w.reg[i]
        for key, obj in list(NODE_REGISTRY.items()):
            if obj.id != key:
                errs.append(("registry-key", f"the registry holds a node with id {obj.id} under the key {key}"))
                break
        live_ids = [o.id for o in (wr() for wr in w.reg.values()) if o is not None]
        if len(set(live_ids)) != len(live_ids):
            errs.append(("duplicate-ids", "two registered nodes share an id"))
        for i in sorted({i for _, i in w.tracked}):
            exp = w.reg.get(i)
            exp = exp() if exp else None
            got = ASTNode.get_any(i)
            if got is not exp:
                what = "nothing" if got is None else ("another object" if exp is not None else "an object that should not be registered")
                errs.append(("lookup", f"get_any({i}) returned {what}; expected {'the live registered node' if exp is not None else 'None'}"))
                continue
            if exp is None:
                if RL.get(i) is not None or RP.get(i, strict=False) is not None:
                    errs.append(("get-unregistered", f"get({i}) returned an object for an unregistered id"))
                continue
            cls = type(exp)
            if cls.get(i) is not exp:
                errs.append(("get-own-class", f"{cls.__name__}.get({i}) did not return the node"))
            if ASTNode.get(i, strict=False) is not exp or ASTNode.get(i) is not None:
                errs.append(("get-base", "ASTNode.get strict/non-strict wrong"))
            if cls is RS and (RL.get(i) is not None or RL.get(i, strict=False) is not exp):
                errs.append(("get-superclass", "RL.get on an RS node: strict must miss, strict=False must hit"))
            if cls is RL and (RS.get(i) is not None or RS.get(i, strict=False) is not None):
                errs.append(("get-subclass", "RS.get on an RL node (lookup through a DESCENDANT class) must miss, strict or not"))
            other = RP if cls is not RP else RL
            sentinel = object()
            if other.get(i, sentinel) is not sentinel or other.get(i, sentinel, strict=False) is not sentinel:
                errs.append(("get-other-class", f"{other.__name__}.get({i}) returned a {cls.__name__}"))
        return errs


def many_twins(rec: Rec, dsize: int, n: int = 12):
    """Scripted family beyond the BFS bound: n content-identical twins alive at once (two-digit collision suffixes),
    every single and every pair of them dropped or detached, then new twins created.  Oracle: ids of simultaneously
    registered nodes pairwise different; lookup returns exactly the live, not detached objects."""
    config.ID_DIGEST_SIZE = dsize
    for mode in ("drop", "detach", "detach_self", "replace"):
        for i, j in [(a, b) for a in range(n) for b in range(a, n)]:
            NODE_REGISTRY.clear()
            twins = [RL(1) for _ in range(n)]
            case = {"digest": dsize, "scenario": "many-twins", "mode": mode, "positions": [i, j], "n": n}
            rec.count("transitions"); rec.count("traces"); rec.count("evaluations")
            gone = []
            for k in sorted({i, j}, reverse=True):
                t = twins.pop(k)
                if mode == "detach":
                    t.detach()
                    gone.append(t)
                elif mode == "detach_self":
                    t.detach_self()
                    gone.append(t)
                elif mode == "replace":
                    twins.append(t.replace(nc=3))
                del t
            twins += [RL(1) for _ in range(3)]
            ids = [t.id for t in twins]
            if len(set(ids)) != len(ids):
                rec.violation("C03|many-twins|duplicate-ids", case, f"two simultaneously registered twins share an id: {sorted(ids)}")
            for t in twins:
                if ASTNode.get_any(t.id) is not t or RL.get(t.id) is not t:
                    rec.violation("C03|many-twins|lookup", case, f"a live registered twin is not returned under its id {t.id}")
                    break
            for t in gone:
                if ASTNode.get_any(t.id) is t:
                    rec.violation("C03|many-twins|detached-returned", case, "a detached twin is still returned by lookup")
            rec.outcome(f"many-twins:{mode}")
    NODE_REGISTRY.clear()


PAIR_MAKERS = ["replace-noncompared", "replace-nothing", "replace-value", "roundtrip-after-detach_self", "rebuild-after-detach_self", "detach-then-twin"]
PLACEMENTS = ["old,new", "new,old", "old,P(new)", "P(old),new", "new,P(old)", "x,old,new", "old,x,new", "P(old),P(new)"]
AFTER = ["detach", "detach_self", "replace-reversed", "duplicate", "roundtrip", "readonly", "detach-twice"]


def same_id_pairs(rec: Rec, dsize: int):
    """Scripted family beyond the chain universe of the BFS: ONE tree that holds both a node that was replaced away (or
    detached) and the live node that now carries its id - in either order, directly or below a parent - and then every
    registry-relevant operation on that tree.  Oracle: an identity-based reference registry; lookup by id must return
    exactly the referenced objects."""
    config.ID_DIGEST_SIZE = dsize
    for maker, place, after in itertools.product(PAIR_MAKERS, PLACEMENTS, AFTER):
        NODE_REGISTRY.clear()
        rec.count("transitions"); rec.count("traces"); rec.count("evaluations"); rec.count("states")
        case = {"digest": dsize, "scenario": "same-id-pair", "maker": maker, "placement": place, "after": after}
        ref: dict = {}  # id string -> object expected under it

        def reg(n):
            ref[n.id] = n

        def unreg(n):
            if ref.get(n.id) is n:
                del ref[n.id]

        old = RL(1, origin=zoo.O_A01)
        reg(old)
        if maker == "replace-noncompared":
            unreg(old); new = old.replace(nc=7); reg(new)
        elif maker == "replace-nothing":
            unreg(old); new = old.replace(); reg(new)
        elif maker == "replace-value":
            unreg(old); new = old.replace(v=2); reg(new)
        elif maker == "roundtrip-after-detach_self":
            d = old.as_dict(); old.detach_self(); unreg(old); new = RL.as_obj(d); reg(new)
        elif maker == "rebuild-after-detach_self":
            old.detach_self(); unreg(old); new = RL(1, origin=zoo.O_A01); reg(new)
        else:
            old.detach(); unreg(old); new = RL(1, origin=zoo.O_A01); reg(new)
        if new is old or (new.id != old.id and maker != "replace-value"):  # a changed value gives a new id: kept as the control case
            rec.violation("C03|same-id-pair|set-up", case, f"set-up did not produce two objects with one id ({old.id} / {new.id})")
            continue
        x = RL(3)
        reg(x)

        def P(n):
            q = RP(c=n)
            reg(q)
            return q

        items = {"old,new": lambda: (old, new), "new,old": lambda: (new, old), "old,P(new)": lambda: (old, P(new)), "P(old),new": lambda: (P(old), new),
                 "new,P(old)": lambda: (new, P(old)), "x,old,new": lambda: (x, old, new), "old,x,new": lambda: (old, x, new),
                 "P(old),P(new)": lambda: (P(old), P(new))}[place]()
        t = RT(items=items)
        reg(t)
        members = [t] + [i.node for i in t.dfs()]
        keep = None
        try:
            if after in ("detach", "detach-twice"):
                for n in members:
                    unreg(n)
                t.detach()
                if after == "detach-twice":
                    t.detach()
            elif after == "detach_self":
                unreg(t)
                t.detach_self()
            elif after == "replace-reversed":
                unreg(t)
                keep = t.replace(items=tuple(reversed(t.items)))
                reg(keep)
            elif after == "duplicate":
                keep = t.duplicate()
                for n in [keep] + [i.node for i in keep.dfs()]:
                    if any(n is m for m in members):
                        rec.violation("C03|same-id-pair|dup-shares", case, "duplicate() shares a node object with the original")
                    reg(n) if n.id not in ref else None
            elif after == "roundtrip":
                keep = RT.as_obj(t.as_dict())
                if keep is not t:
                    rec.violation("C03|same-id-pair|rt-not-reused", case, "as_obj did not return the registered object under the serialized id")
            else:
                readonly_battery(t)
        except Exception as e:  # noqa: BLE001
            rec.violation(f"C03|same-id-pair|raises|{type(e).__name__}", case, f"{after} raised {type(e).__name__}: {str(e)[:120]}")
            continue
        rec.outcome(f"same-id-pair:{after}")
        ids = {n.id for n in members} | set(ref)
        if keep is not None:
            ids |= {keep.id} | {i.node.id for i in keep.dfs()}
        for i in sorted(ids):
            exp = ref.get(i)
            got = ASTNode.get_any(i)
            if got is not exp:
                what = "nothing" if got is None else ("another object" if exp is not None else "an object that should not be registered")
                rec.violation("C03|same-id-pair|lookup", case, f"after {after}: get_any({i}) returned {what}; expected {'the live registered node' if exp is not None else 'None'}")
                break
        del t, members, keep, items, old, new, x
    NODE_REGISTRY.clear()


def deep_detach(rec: Rec, dsize: int):
    """detach() / lookup on a tree 3000 levels deep (beyond the interpreter's recursion limit)."""
    config.ID_DIGEST_SIZE = dsize
    NODE_REGISTRY.clear()
    rec.count("transitions"); rec.count("traces"); rec.count("evaluations"); rec.count("states")
    x = RL(1)
    nodes = [x]
    for _ in range(3000):
        x = RP(c=x)
        nodes.append(x)
    case = {"digest": dsize, "scenario": "deep-chain"}
    if any(ASTNode.get_any(n.id) is not n for n in nodes[::97]):
        rec.violation("C03|deep-chain|lookup", case, "a registered node of a deep chain is not returned under its id")
    try:
        nodes[-1].detach()
    except RecursionError:
        rec.violation("C03|deep-chain|recursion", case, "detach() of a chain of depth 3000 raised RecursionError")
        NODE_REGISTRY.clear()
        return
    if any(ASTNode.get_any(n.id) is not None for n in nodes):
        rec.violation("C03|deep-chain|lookup", case, "a node of a detached deep chain is still returned by lookup")
    rec.outcome("deep-chain")
    NODE_REGISTRY.clear()


def _colliding_across(dsize):
    """(value for RL, value for RS) whose ids collide at this digest size, or None (searched on the running implementation)."""
    config.ID_DIGEST_SIZE = dsize
    seen = {}
    for v in range(600):
        NODE_REGISTRY.clear()
        seen.setdefault(RL(v).id, v)
    for w in range(600):
        NODE_REGISTRY.clear()
        i = RS(w).id
        if i in seen:
            NODE_REGISTRY.clear()
            return seen[i], w
    NODE_REGISTRY.clear()
    return None


def stale_documents(rec: Rec, dsize: int):
    """A document is written, its node goes away, ANOTHER node takes over the id (a twin of the same class, other content with a
    colliding digest, a node of another class with a colliding digest - the last two exist for small digests only), and then
    the document is loaded.  What the load returns in that situation is not specified; the registry invariants are: the node
    that holds the id stays registered as itself, ids of registered live nodes are unique, lookup returns registered nodes."""
    config.ID_DIGEST_SIZE = dsize
    pair = colliding_values(dsize)
    across = _colliding_across(dsize) if dsize <= 2 else None
    takers = [("twin", lambda: RL(1))]
    if dsize <= 2 and pair[0] != pair[1]:
        takers.append(("other-content", None))
    if across is not None:
        takers.append(("other-class", None))
    for tname, _ in takers:
        for gone in ("dropped", "detached", "replaced"):
            for fmt in ("dict", "json"):
                NODE_REGISTRY.clear()
                rec.count("transitions"); rec.count("traces"); rec.count("evaluations"); rec.count("states")
                case = {"digest": dsize, "scenario": "stale-document", "taker": tname, "original": gone, "format": fmt}
                if tname == "twin":
                    x, mk = RL(1), (lambda: RL(1))
                elif tname == "other-content":
                    x, mk = RL(pair[0]), (lambda: RL(pair[1]))
                else:
                    x, mk = RS(across[1]), (lambda: RL(across[0]))
                xid = x.id
                doc = x.as_dict() if fmt == "dict" else x.to_json()
                keep = [x] if gone != "dropped" else []
                if gone == "detached":
                    x.detach()
                elif gone == "replaced":
                    keep.append(x.replace(v=x.v + 1000))
                del x
                gc.collect()
                y = mk()
                if y.id != xid:
                    rec.outcome("stale-document:id-not-taken")
                    continue
                try:
                    z = ASTNode.as_obj(doc) if fmt == "dict" else ASTNode.from_json(doc)
                except Exception as e:  # noqa: BLE001
                    z = None
                    rec.outcome(f"stale-document:load-raises:{type(e).__name__}")
                if ASTNode.get_any(y.id) is not y:
                    rec.violation("C03|stale-document|lookup", case, "loading a stale document took the registry entry of the live node that holds the id")
                live = [n for n in [y, z] + keep if n is not None and NODE_REGISTRY.get(n.id) is n]
                ids = [n.id for n in {id(n): n for n in live}.values()]
                if len(set(ids)) != len(ids):
                    rec.violation("C03|stale-document|duplicate-ids", case, "two registered live nodes share an id after the load")
                if z is not None and z is not y and ASTNode.get_any(z.id) is not z:
                    rec.violation("C03|stale-document|result-not-registered", case, "the node the load returned is not the one registered under its id")
                rec.outcome(f"stale-document:{tname}")
                del y, z, keep
    NODE_REGISTRY.clear()


def plan(tier, seed):
    cfgs = []
    for ds in DIGESTS[tier]:
        cfgs.append({"digest": ds, "depth": DEPTH[tier], "procs": 16 if tier == "thorough" else 8, "label": f"digest={ds}", "pid": PID})
    return cfgs


def run_shard(cfg):
    rec = Rec(cfg)
    m = Model(cfg["digest"])
    explore(m, cfg["depth"], rec, cfg, procs=cfg.get("procs", 1))
    many_twins(rec, cfg["digest"])
    same_id_pairs(rec, cfg["digest"])
    if cfg["digest"] >= 8:
        deep_detach(rec, cfg["digest"])
    stale_documents(rec, cfg["digest"])
    rec.bound["digest_sizes"] = sorted(set(rec.bound.get("digest_sizes", [])) | {cfg["digest"]})
    rec.extra["colliding_values"] = {str(cfg["digest"]): list(m.vals)}
    return rec.result()


def replay(case, cfg):
    rec = Rec(cfg)
    if case.get("scenario") == "stale-document":
        stale_documents(rec, int(case["digest"]))
        return rec.result()["violations"]
    if case.get("scenario") == "deep-chain":
        deep_detach(rec, int(case["digest"]))
        return rec.result()["violations"]
    if case.get("scenario") == "same-id-pair":
        same_id_pairs(rec, int(case["digest"]))
        return rec.result()["violations"]
    if case.get("scenario") == "many-twins":
        many_twins(rec, int(case["digest"]), int(case.get("n", 12)))
        return rec.result()["violations"]
    m = Model(int(case["digest"]))
    hist = [tuple(o) for o in case["history"]]
    w = m.fresh()
    for op in hist[:-1]:
        if m.apply(w, op, None, None) != "ok":
            return []
    judged_step(m, w, hist[-1], rec, tuple(hist[:-1]), cfg)
    return rec.result()["violations"]
