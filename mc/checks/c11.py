"""C11 - every field annotation is soundly classified as child, property, or rejected.

E1 over programs.  Annotations are terms of the type grammar of mc.ref.types (scalars, Any, None, Literal, Enum,
NewType of int / of a node class / of list, node classes, forward references; Optional, Union, X | Y, tuple
(variadic, fixed, empty), frozenset, Sequence, Mapping, list, dict, set) nested to depth 2 (thorough: 3 over a
reduced atom set).  Each term is rendered into a class definition without and with `from __future__ import
annotations` (forward references as string literals in plain mode, also nested), alone, inherited from a base, and
as an override of a base field of the other kind.  The reference classifier works on the term only.  Rejected =>
InvalidFieldAnnotations at definition or at first use, never a successful instantiation; child / property =>
exactly one of get_child_fields / get_property_fields lists the field, and an instance can be built.
"""
from __future__ import annotations

import itertools
import sys
import types

from .. import boot  # noqa: F401
from pyoak import serialize as _ser
from pyoak import types as _pytypes
from pyoak.error import InvalidFieldAnnotations
from pyoak.node import NODE_REGISTRY

from ..core import Rec
from ..ref import types as RT

PID = "C11"
RULE = (
    "terms: all grammar terms to the depth bound (binary constructors take their second argument from a 4-atom set); each x "
    "{plain, postponed} x {alone, inherited, override-of-other-kind} (quick: inherited/override only for depth <= 1).  states = "
    "distinct (term, mode, placement) class definitions; transitions = definition + first-use probes compared with the reference "
    "classifier; non-trivial = terms of depth >= 1 that mention a node class (the classifier must look inside)"
)
ASSUMPTIONS = ["A5: a class definition that dies inside mashumaro's code generation is counted as backend_unsupported and not judged"]
NSHARDS = 16
ATOMS = ["int", "str", "Any", "None", "Lit", "Enum", "NI", "NN", "NL", "N1", "N2", "FR", "NT", "NO", "Lst", "Dct", "St"]
SECOND = ["int", "None", "N2", "FR", "NL"]
ATOMS_RED = ["int", "None", "N1", "NN", "FR", "NL"]
SECOND_RED = ["None", "N2", "int"]
_counter = itertools.count()


_PRELUDE_MOD = None


def make_module(postponed):
    """One prelude (node classes are registered by name, so it is defined once); every mode gets its own module
    namespace seeded with the prelude's names."""
    global _PRELUDE_MOD
    if _PRELUDE_MOD is None:
        _PRELUDE_MOD = types.ModuleType("mc_c11_prelude")
        sys.modules[_PRELUDE_MOD.__name__] = _PRELUDE_MOD
        exec(compile(RT.PRELUDE, "<c11-prelude>", "exec", dont_inherit=True), _PRELUDE_MOD.__dict__)
    mod = types.ModuleType(f"mc_c11_gen_{'pp' if postponed else 'pl'}_{next(_counter)}")
    sys.modules[mod.__name__] = mod
    for k, v in _PRELUDE_MOD.__dict__.items():
        if not k.startswith("__"):
            mod.__dict__[k] = v
    return mod


def all_terms(tier):
    ts = RT.terms(2, ATOMS, SECOND)
    seen = set(ts)
    if tier == "thorough":
        for t in RT.terms(3, ATOMS_RED, SECOND_RED):
            if t not in seen:
                seen.add(t)
                ts.append(t)
    return ts


def depth(t):
    return 0 if t[0] == "atom" or len(t) == 1 else 1 + max(depth(a) for a in t[1:] if isinstance(a, tuple))


def value_for(t, g, later):
    """A well-typed value for an accepted child annotation; None for properties (no type check by default)."""
    t = RT.expand(t)
    if t[0] == "atom":
        return {"N1": g["N1"], "NN": g["N1"], "N2": g["N2"]}.get(t[1], lambda: later())() if t[1] in RT.NODE_ATOMS else None
    if RT.is_union(t):
        for m in RT.union_members(t):
            if m != ("atom", "None"):
                return value_for(m, g, later)
        return None
    if t[0] == "vtuple":
        return (value_for(t[1], g, later),)
    if t[0] == "ftuple":
        return (value_for(t[1], g, later), value_for(t[2], g, later))
    return None


def is_backend_failure(exc) -> bool:
    tb = exc.__traceback__
    while tb is not None:
        if "mashumaro" in tb.tb_frame.f_code.co_filename:
            return True
        tb = tb.tb_next
    return False


def probe(mod, t, postponed, placement):
    """Define the class(es), then use them.  Returns (verdict, detail) with verdict in
    child | property | rejected | backend | other:<exc>"""
    g = mod.__dict__
    n = next(_counter)
    cname, bname, lname = f"X{n}", f"XB{n}", f"Later{n}"
    ann = RT.render(t, postponed).replace("Later", lname)
    head = "from __future__ import annotations\n" if postponed else ""
    FLAGS = {"noinit-nocompare": "default=None, init=False, compare=False", "noinit": "default=None, init=False", "nocompare": "default=None, compare=False",
             "kwonly": "default=None, kw_only=True"}
    if placement == "alone":
        src = f"{head}@dataclass(frozen=True)\nclass {cname}(ASTNode):\n    f: {ann}\n"
    elif placement == "shadow":
        # the field is declared (as a string annotation) on a base class; the class under test is a subclass whose own NAME is a
        # name the annotation uses for something else (the enum E): names in an annotation mean what they mean where it was written
        src = (f"{head}@dataclass(frozen=True)\nclass {bname}(ASTNode):\n    f: {ann}\n\n"
               f"{cname} = dataclass(frozen=True)(type('E', ({bname},), {{'__annotations__': {{'g': 'int'}}, 'g': 0, '__module__': __name__}}))\n")
    elif placement == "deferred":
        # another field of the class refers to a class defined later, so the definition-time check cannot run and the verdict
        # is reached at first use
        src = f"{head}@dataclass(frozen=True)\nclass {cname}(ASTNode):\n    f: {ann}\n    zz: Optional['{lname}'] = None\n"
    elif placement in FLAGS:
        # the dataclass options of a field (not an init argument, not compared, keyword-only) have no bearing on its kind
        src = f"{head}@dataclass(frozen=True)\nclass {cname}(ASTNode):\n    f: {ann} = field({FLAGS[placement]})\n"
    elif placement == "inherited":
        src = f"{head}@dataclass(frozen=True)\nclass {bname}(ASTNode):\n    f: {ann}\n\n@dataclass(frozen=True)\nclass {cname}({bname}):\n    g: int = 0\n"
    else:  # the base declares f with the other kind; the derived class overrides it
        other = "int = 0" if RT.classify(t) != "property" else "Optional[N1] = None"
        src = f"{head}@dataclass(frozen=True)\nclass {bname}(ASTNode):\n    f: {other}\n\n@dataclass(frozen=True)\nclass {cname}({bname}):\n    f: {ann}\n"
    src += f"\n@dataclass(frozen=True)\nclass {lname}(ASTNode):\n    w: int = 0\n"
    names = [cname, bname, lname] + (["E"] if placement == "shadow" else [])
    saved_E = g.get("E")
    try:
        try:
            exec(compile(src, f"<c11:{cname}>", "exec", dont_inherit=True), g)
        except InvalidFieldAnnotations:
            return "rejected", "at definition"
        except Exception as e:  # noqa: BLE001
            return ("backend" if is_backend_failure(e) else f"other:{type(e).__name__}"), f"definition: {str(e)[:160]}"
        cls = g[cname]
        try:
            kids = [f.name for f in cls.get_child_fields()]
            props = [f.name for f in cls.get_property_fields()]
        except InvalidFieldAnnotations:
            # never a successful instantiation either
            try:
                NODE_REGISTRY.clear()
                cls() if "noinit" in placement else (cls(f=None) if placement in FLAGS else cls(None))
                return "other:instantiated-after-rejection", "static accessor rejected the class but it can be instantiated"
            except InvalidFieldAnnotations:
                return "rejected", "at first use"
            except Exception as e:  # noqa: BLE001
                return f"other:{type(e).__name__}", f"instantiation after rejection: {str(e)[:160]}"
        except Exception as e:  # noqa: BLE001
            return ("backend" if is_backend_failure(e) else f"other:{type(e).__name__}"), f"first use: {str(e)[:160]}"
        inboth = ("f" in kids) + ("f" in props)
        if inboth != 1:
            return "other:not-exactly-one", f"child_fields={kids} property_fields={props}"
        verdict = "child" if "f" in kids else "property"
        # an instance must be constructible
        try:
            NODE_REGISTRY.clear()
            v = value_for(t, g, lambda: g[lname]()) if verdict == "child" and RT.classify(t) == "child" else None
            if verdict == "child" and RT.classify(t) != "child":
                return verdict, ""
            if placement in FLAGS and "noinit" in placement:
                return verdict, ""   # no valid value can be supplied for a field that is not an init argument
            inst = cls(f=v) if placement in FLAGS else cls(v)
            got = [c for c in inst.get_child_nodes()]
            if verdict == "child" and not got:
                return "other:child-not-enumerated", "instance built but the child is not enumerated"
        except InvalidFieldAnnotations:
            return "other:late-rejection", "accessors classified the field, instantiation raised InvalidFieldAnnotations"
        except Exception as e:  # noqa: BLE001
            return ("backend" if is_backend_failure(e) else f"other:{type(e).__name__}"), f"instantiation: {str(e)[:160]}"
        return verdict, ""
    finally:
        for nm in names:
            if nm == "E":
                _ser.TYPES.pop("E", None)
                g["E"] = saved_E
                continue
            cls = g.pop(nm, None)
            _ser.TYPES.pop(nm, None)
            if cls is not None:
                for d in (_pytypes._TYPE_TO_ALL_FIELDS, _pytypes._TYPE_TO_CHILD_FIELDS, _pytypes._TYPE_TO_PROPS):
                    d.pop(cls, None)


def feature(t):
    ats = RT.atoms_of(t)
    tags = []
    if "FR" in ats:
        tags.append("fwdref" + ("-nested" if t[0] != "atom" else ""))
    if "NO" in ats and t[0] != "atom":
        tags.append("newtype-of-optional-nested")   # NewType("NO", Optional[N1]) inside another annotation (known finding)
    elif ats & {"NN", "NI", "NL", "NT", "NO"}:
        tags.append("newtype" + ("-nested" if t[0] != "atom" else ""))
    if t == ("atom", "None"):
        tags.append("none-annotation")
    return "+".join(tags) or "plain"


def plan(tier, seed):
    return [{"k": i, "of": NSHARDS, "tier": tier} for i in range(NSHARDS)]


def run_shard(cfg):
    rec = Rec(cfg)
    mods = {False: make_module(False), True: make_module(True)}
    idx = 0
    for t in all_terms(cfg["tier"]):
        exp = RT.classify(t)
        d = depth(t)
        for postponed in (False, True):
            if not RT.renderable(t, postponed):
                continue
            placements = ["alone", "inherited", "override"] if (cfg["tier"] == "thorough" and d <= 2) or d <= 1 else ["alone"]
            if d <= 1:
                placements += ["noinit-nocompare", "noinit", "nocompare", "kwonly", "deferred"]
            if postponed and "Enum" in RT.atoms_of(t) and "FR" not in RT.atoms_of(t):
                placements.append("shadow")
            for placement in placements:
                mine = idx % cfg["of"] == cfg["k"]
                idx += 1
                if not mine:
                    continue
                rec.rank = idx
                rec.count("states")
                rec.count("transitions")
                rec.count("traces")
                rec.count("evaluations")
                if d >= 1 and RT.atoms_of(t) & RT.NODE_ATOMS:
                    rec.count("nontrivial")
                case = {"term": t, "annotation": RT.render(t, postponed), "postponed": postponed, "placement": placement}
                rec.sample(case)
                got, detail = probe(mods[postponed], t, postponed, placement)
                rec.outcome(f"{exp}->{got.split(':')[0]}")
                if got == "backend":
                    rec.count("backend_unsupported")
                    continue
                if got != exp:
                    mode = "postponed" if postponed else "plain"
                    rec.violation(f"C11|{exp}-as-{got}|{feature(t)}|{mode}", case,
                                  f"{RT.render(t, postponed)} ({mode}, {placement}): reference says {exp}, implementation: {got} {detail}")
    rec.bound = {"annotation_depth": 3 if cfg["tier"] == "thorough" else 2}
    return rec.result()


def replay(case, cfg):
    rec = Rec(cfg)
    t = case["term"]
    postponed = bool(case["postponed"])
    mod = make_module(postponed)
    exp = RT.classify(t)
    got, detail = probe(mod, t, postponed, case["placement"])
    if got != exp and got != "backend":
        mode = "postponed" if postponed else "plain"
        rec.violation(f"C11|{exp}-as-{got}|{feature(t)}|{mode}", case, detail)
    return rec.result()["violations"]
