"""C15 - origin algebra: interval laws, hull merging, flat multi-origins, exact slices.

E1: every code point on a small (index, line, column) grid for construction; every range on a 0..G index grid
(pairs and triples exhaustively) for the order / containment / overlap / hull laws; every range x 3 sources for
get_raw(); every tuple of <= 4 operands over a 14-origin alphabet (no origin, overlapping / touching / disjoint code
origins, one whose points carry other line / column labels, one on an equal but separately built source, another source, generated, XML, an existing flat multi-origin) for merge_origins, concat_origins and
left-folded +, compared with a reference fold written from the statement.
"""
from __future__ import annotations

import itertools

from .. import boot  # noqa: F401
from pyoak.origin import (
    NO_ORIGIN,
    EntireSourcePosition,
    Origin,
    CodeOrigin,
    CodePoint,
    CodeRange,
    GeneratedCodeOrigin,
    MemoryTextSource,
    MultiOrigin,
    NoOrigin,
    Source,
    SourceSet,
    PositionSet,
    XMLFileOrigin,
    XMLPath,
    concat_origins,
    merge_origins,
)

from ..core import Rec

PID = "C15"
RULE = (
    "points: all (index, line, column) in [-1..G] x [0..2] x [-1..1]; ranges: all ordered index pairs on 0..G incl. ill-formed; "
    "all pairs and triples of well-formed ranges for the laws; every range on texts of length 0, 3, 6 and a non-text source for "
    "get_raw; all pairs also with every labelling of the end points (same index, other line / column); all operand tuples of length <= 4 over 14 origins for merge / concat / +.  states = distinct operand tuples and "
    "range tuples; transitions = law instances / operations evaluated against the reference; non-trivial = operand tuples whose "
    "reference result is a MultiOrigin or a coalesced CodeOrigin (not simply one operand or NoOrigin)"
)
ASSUMPTIONS = ["two points with one index and different line / column labels are the same position for every law (ordered by index); "
               "which of the two labels a hull carries is not specified and not compared"]
G = {"quick": 5, "thorough": 7}
NSHARDS = 16


def P(i):
    return CodePoint(i, 1, i)


def R(a, b):
    return CodeRange(P(a), P(b))


def PV(i, v):
    """Point at index i; v=1 labels the same index as 'column 0 of the next line' (what a tokenizer that counts the
    position after a newline differently produces).  Points are ordered by index, so P(i) and PV(i, 1) are one position."""
    return CodePoint(i, 1, i) if v == 0 else CodePoint(i, 2, 0)


def RV(x, v):
    return CodeRange(PV(x[0], v[0]), PV(x[1], v[1]))


VARIANTS = [(0, 0), (0, 1), (1, 0), (1, 1)]


def check_points(rec, g):
    for i, ln, col in itertools.product(range(-1, g + 1), range(0, 3), range(-1, 2)):
        rec.count("transitions"); rec.count("traces"); rec.count("evaluations")
        ok = i >= 0 and ln >= 1 and col >= 0
        try:
            CodePoint(i, ln, col)
            got = True
        except ValueError:
            got = False
        if got is not ok:
            rec.violation("C15|point|construction", {"point": [i, ln, col]}, f"CodePoint({i},{ln},{col}) {'accepted' if got else 'rejected'}")
    for a, b in itertools.product(range(g + 1), repeat=2):
        rec.count("transitions"); rec.count("traces"); rec.count("evaluations")
        if (P(a) < P(b)) is not (a < b) or (P(a) <= P(b)) is not (a <= b) or (P(a) > P(b)) is not (a > b) or (P(a) >= P(b)) is not (a >= b):
            rec.violation("C15|point|order", {"a": a, "b": b}, "code points are not ordered by index")
        try:
            R(a, b)
            got = True
        except ValueError:
            got = False
        if got is not (a <= b):
            rec.violation("C15|range|construction", {"range": [a, b]}, f"CodeRange {a}-{b} {'accepted' if got else 'rejected'}")
        for va, vb in VARIANTS[1:]:
            rec.count("transitions"); rec.count("traces"); rec.count("evaluations")
            p, q = PV(a, va), PV(b, vb)
            if (p < q) is not (a < b) or (p <= q) is not (a <= b) or (p > q) is not (a > b) or (p >= q) is not (a >= b):
                rec.violation("C15|point|order", {"a": a, "b": b, "labels": [va, vb]}, "code points with different line / column labels are not ordered by index")
            try:
                CodeRange(p, q)
                got = True
            except ValueError:
                got = False
            if got is not (a <= b):
                rec.violation("C15|range|construction", {"range": [a, b], "labels": [va, vb]}, f"CodeRange {a}-{b} {'accepted' if got else 'rejected'} (end points labelled differently)")


def check_range_laws(rec, g, k, of):
    rs = [(a, b) for a in range(g + 1) for b in range(a, g + 1)]
    idx = 0
    for x, y in itertools.product(rs, repeat=2):
        idx += 1
        if idx % of != k:
            continue
        rec.rank = idx
        rec.count("states"); rec.count("transitions"); rec.count("traces"); rec.count("evaluations")
        a, b = R(*x), R(*y)
        case = {"a": list(x), "b": list(y)}
        cont = y[0] <= x[0] and x[1] <= y[1]
        if (a in b) is not cont:
            rec.violation("C15|range|contains", case, f"a in b is {a in b}, reference {cont}")
        ov = x[1] >= y[0] and x[0] <= y[1]
        if a.overlaps(b) is not ov or b.overlaps(a) is not ov:
            rec.violation("C15|range|overlaps", case, f"overlaps is {a.overlaps(b)}/{b.overlaps(a)}, reference {ov} (touching ranges overlap, symmetric)")
        if (a < b) is not (x[1] < y[0]) or (a <= b) is not (x[1] <= y[0]):
            rec.violation("C15|range|order", case, "a < b must mean a ends before b starts")
        h = a + b
        hx = (min(x[0], y[0]), max(x[1], y[1]))
        if (h.start.index, h.end.index) != hx or a not in h or b not in h or h != b + a:
            rec.violation("C15|range|hull", case, f"hull is {h.start.index}-{h.end.index}, reference {hx[0]}-{hx[1]} (contains both, commutative)")
        if x == y and (a + a != a or a not in a or not a.overlaps(a)):
            rec.violation("C15|range|idempotent-reflexive", case, "hull idempotent / containment reflexive / overlap reflexive violated")
        if (a in b) and (b in a) and a != b:
            rec.violation("C15|range|antisymmetry", case, "containment is not antisymmetric")
        rec.outcome(f"contains:{cont} overlaps:{ov}")
        # the same laws when the end points carry other line / column labels for the same indexes
        for vx, vy in itertools.product(VARIANTS, repeat=2):
            if vx == vy == (0, 0):
                continue
            rec.count("transitions"); rec.count("traces"); rec.count("evaluations")
            case = {"a": list(x), "b": list(y), "labels": [list(vx), list(vy)]}
            try:
                a, b = RV(x, vx), RV(y, vy)
            except ValueError:
                rec.violation("C15|range|construction", case, "a well-formed range (start index <= end index) was rejected")
                continue
            if (a in b) is not cont:
                rec.violation("C15|range|contains", case, f"a in b is {a in b}, reference {cont}")
            if a.overlaps(b) is not ov or b.overlaps(a) is not ov:
                rec.violation("C15|range|overlaps", case, f"overlaps is {a.overlaps(b)}/{b.overlaps(a)}, reference {ov} (touching ranges overlap, symmetric)")
            if (a < b) is not (x[1] < y[0]) or (a <= b) is not (x[1] <= y[0]):
                rec.violation("C15|range|order", case, "a < b must mean a ends before b starts")
            try:
                h, h2 = a + b, b + a
            except ValueError:
                rec.violation("C15|range|hull", case, "the hull of two well-formed ranges was rejected")
                continue
            if (h.start.index, h.end.index) != hx or (h2.start.index, h2.end.index) != hx or a not in h or b not in h:
                rec.violation("C15|range|hull", case, f"hull is {h.start.index}-{h.end.index}, reference {hx[0]}-{hx[1]} (contains both, commutative)")
    # the library's own placeholder range (the position of generated code) is a range like any other: 0-0
    from pyoak.origin import EMPTY_CODE_RANGE

    if k == 0:
        for y in rs:
            rec.count("transitions"); rec.count("traces"); rec.count("evaluations")
            b = R(*y)
            case = {"a": "EMPTY_CODE_RANGE", "b": list(y)}
            for h in (EMPTY_CODE_RANGE + b, b + EMPTY_CODE_RANGE):
                if (h.start.index, h.end.index) != (0, y[1]) or b not in h or EMPTY_CODE_RANGE not in h:
                    rec.violation("C15|range|hull", case, f"hull with the placeholder range 0-0 is {h.start.index}-{h.end.index}, reference 0-{y[1]} (contains both)")
            if EMPTY_CODE_RANGE.overlaps(b) is not (y[0] == 0) or (EMPTY_CODE_RANGE in b) is not (y[0] == 0):
                rec.violation("C15|range|overlaps", case, "overlap / containment with the placeholder range 0-0 differs from the reference")
    for x, y, z in itertools.product(rs, repeat=3):
        idx += 1
        if idx % of != k:
            continue
        rec.count("transitions"); rec.count("traces"); rec.count("evaluations")
        a, b, c = R(*x), R(*y), R(*z)
        if (a in b) and (b in c) and not (a in c):
            rec.violation("C15|range|transitivity", {"a": list(x), "b": list(y), "c": list(z)}, "containment is not transitive")
        if (a + b) + c != a + (b + c):
            rec.violation("C15|range|hull-associative", {"a": list(x), "b": list(y), "c": list(z)}, "hull is not associative")


def sources():
    return [MemoryTextSource("abcdef", source_uri="mem://t6"), MemoryTextSource("xyz", source_uri="mem://t3"),
            MemoryTextSource("", source_uri="mem://t0"), Source("bin://b", "binary", _raw=b"\x00\x01\x02")]


def check_raw(rec, g):
    texts = {"mem://t6": "abcdef", "mem://t3": "xyz", "mem://t0": ""}
    for src in sources():
        for a in range(g + 1):
            for b in range(a, g + 1):
                rec.count("transitions"); rec.count("traces"); rec.count("evaluations")
                o = CodeOrigin(src, R(a, b))
                exp = texts[src.source_uri][a:b] if src.source_uri in texts else None
                if o.get_raw() != exp:
                    rec.violation("C15|get_raw", {"source": src.source_uri, "range": [a, b]}, f"get_raw() is {o.get_raw()!r}, expected {exp!r}")


def alphabet():
    s6, s3, s0, sb = sources()
    a = {
        "-": NO_ORIGIN,
        "c02": CodeOrigin(s6, R(0, 2)),
        "c13": CodeOrigin(s6, R(1, 3)),     # overlaps c02
        "c24": CodeOrigin(s6, R(2, 4)),     # touches c02
        "c56": CodeOrigin(s6, R(5, 6)),     # disjoint from the others
        "e13": CodeOrigin(MemoryTextSource("abcdef", source_uri="mem://t6"), R(1, 3)),   # an EQUAL but separately built source: same source as c02 / c24
        "x13": CodeOrigin(Source("mem://t6", "look-alike", _raw=b"abcdef"), R(1, 3)),   # a DIFFERENT source with the same uri / fqn as s6
        "v23": CodeOrigin(s6, RV((2, 3), (1, 1))),   # touches c02 / overlaps c13, c24; its points carry other line / column labels
        "d02": CodeOrigin(s3, R(0, 2)),     # same range, other source
        "gen": GeneratedCodeOrigin(s3),     # a CodeOrigin subclass at 0-0 on s3: touches d02
        "xml": XMLFileOrigin(sb, XMLPath("/a/b")),
        "base": Origin(s6, EntireSourcePosition()),   # an instance of the base class itself (every other operand is of a subclass)
        "m": merge_origins(CodeOrigin(s6, R(0, 1)), XMLFileOrigin(sb, XMLPath("/z"))),   # an existing flat multi-origin
        "m2": merge_origins(CodeOrigin(s3, R(1, 2)), CodeOrigin(s3, R(2, 3))),            # multi with a common source
    }
    return a


def ref_flat(ops):
    out = []
    for o in ops:
        if isinstance(o, NoOrigin):
            continue
        if isinstance(o, MultiOrigin):
            out.extend(o.origins)
        else:
            out.append(o)
    return out


def ref_merge(ops):
    """('same', obj) | ('none',) | ('multi', [members]) """
    if len(ops) == 1:
        return ("same", ops[0])
    flat = ref_flat(ops)
    if not flat:
        return ("none",)
    if len(flat) == 1:
        return ("same", flat[0])
    return ("multi", flat)


def ref_add(a, b):
    """Reference of a + b on realised reference values: returns ('code', source, (s, e)) | result of ref_merge."""
    if isinstance(a, CodeOrigin) and isinstance(b, CodeOrigin) and a.source == b.source:
        x = (a.position.start.index, a.position.end.index)
        y = (b.position.start.index, b.position.end.index)
        if x[1] >= y[0] and x[0] <= y[1]:
            return ("code", a.source, (min(x[0], y[0]), max(x[1], y[1])))
    return ref_merge([a, b])


def realise(r):
    """Turn a reference result into a plain description (class, members) - realising hull code origins for further folding."""
    if r[0] == "same":
        return r[1]
    if r[0] == "none":
        return NO_ORIGIN
    if r[0] == "code":
        return CodeOrigin(r[1], R(*r[2]))   # labels of the hull points are unspecified: _oeq compares them by index
    return MultiOrigin(origins=list(r[1]))


def fits(got, r) -> str | None:
    if r[0] == "same":
        return None if got is r[1] or _oeq(got, r[1]) else f"expected the operand itself ({_n(r[1])}), got {_n(got)}"
    if r[0] == "none":
        return None if got is NO_ORIGIN else f"expected NoOrigin, got {_n(got)}"
    if r[0] == "code":
        if type(got) is not CodeOrigin or got.source != r[1] or (got.position.start.index, got.position.end.index) != r[2]:
            return f"expected one CodeOrigin over {r[2][0]}-{r[2][1]}, got {_n(got)}"
        raw = r[1].get_raw()
        if isinstance(raw, str) and got.get_raw() != raw[r[2][0]:r[2][1]]:
            return "get_raw() of the coalesced origin is not the slice of the source text"
        return None
    members = r[1]
    if not isinstance(got, MultiOrigin):
        return f"expected a MultiOrigin of {len(members)} members, got {_n(got)}"
    if len(got.origins) != len(members) or any(not _oeq(g, m) for g, m in zip(got.origins, members)):
        return f"members {[_n(x) for x in got.origins]} differ from the non-empty operands in order {[_n(x) for x in members]}"
    if any(isinstance(x, (MultiOrigin, NoOrigin)) for x in got.origins):
        return "multi-origin is nested or contains NoOrigin"
    srcs = [m.source for m in members]
    if all(s == srcs[0] for s in srcs):
        if got.source != srcs[0] or isinstance(got.source, SourceSet):
            return "source must be the common source"
    elif not isinstance(got.source, SourceSet) or list(got.source.sources) != srcs:
        return "source must be a SourceSet in operand order"
    if not isinstance(got.position, PositionSet) or len(got.position.positions) != len(members) or any(not _peq(p, m.position) for p, m in zip(got.position.positions, members)):
        return "position set must list the members' positions in order"
    # fqn composes the members' fqns: every member's position fqn occurs, in operand order
    pos = 0
    f = got.fqn
    for m in members:
        j = f.find(m.position.fqn, pos)
        if j < 0:
            return f"fqn {f!r} does not contain the members' position fqns in operand order"
        pos = j + len(m.position.fqn)
    return None


def _n(o):
    if isinstance(o, MultiOrigin):
        return "Multi[" + ",".join(_n(x) for x in o.origins) + "]"
    return f"{type(o).__name__}<{o.fqn}>"


def _snap(A):
    return {n: (id(o), tuple(id(x) for x in o.origins), o.fqn, id(o.source), id(o.position)) for n, o in A.items() if isinstance(o, MultiOrigin)}


def check_algebra(rec, k, of, maxlen):
    from ..core import Watchdog

    A = alphabet()
    snap = _snap(A)
    names = list(A)
    fq = {}
    idx = 0
    for ln in range(1, maxlen + 1):
        for combo in itertools.product(names, repeat=ln):
            idx += 1
            if idx % of != k:
                continue
            rec.rank = idx
            ops = [A[n] for n in combo]
            case = {"operands": list(combo)}
            rec.count("states")
            rec.sample(case)
            try:
                with Watchdog(20):
                    _one_case(rec, case, ops, fq)
            except Watchdog.Timeout:
                rec.violation("C15|timeout", case, "merge / concat / + did not finish within 20 s")
            except MemoryError:
                rec.violation("C15|memory", case, "merge / concat / + exhausted memory")
            if _snap(A) != snap:
                rec.violation("C15|operand-modified", case, "an operand (an existing multi-origin) was modified by merge_origins / concat_origins / +")
                A = alphabet()
                snap = _snap(A)


def _one_case(rec, case, ops, fq):
    # merge_origins
    rec.count("transitions"); rec.count("traces"); rec.count("evaluations")
    r = ref_merge(ops)
    if r[0] in ("multi",):
        rec.count("nontrivial")
    try:
        got = merge_origins(*ops)
        msg = fits(got, r)
    except Exception as e:  # noqa: BLE001
        got, msg = None, f"raised {type(e).__name__}: {e}"
    rec.outcome(f"merge:{r[0]}")
    if msg:
        rec.violation("C15|merge_origins", case, msg)
    elif isinstance(got, MultiOrigin):
        key = tuple(m.fqn for m in got.origins)
        other = fq.setdefault(got.fqn, key)
        if other != key:
            rec.violation("C15|fqn|not-injective", case, f"two different member sequences share fqn {got.fqn!r}")
        if merge_origins(*ops).fqn != got.fqn:
            rec.violation("C15|fqn|unstable", case, "equal operand sequences gave different fqns")
    # concat_origins and left-folded +
    rec.count("transitions"); rec.count("traces"); rec.count("evaluations")
    acc = ops[0]
    rr = ("same", ops[0])
    coalesced = False
    for o in ops[1:]:
        rr = ref_add(acc, o)
        coalesced = coalesced or rr[0] == "code"
        acc = realise(rr)
    if coalesced:
        rec.count("nontrivial")
    for fname, fn in (("concat_origins", lambda: concat_origins(*ops)), ("+", lambda: _fold(ops))):
        try:
            got = fn()
            msg = fits(got, rr) if rr[0] != "same" or len(ops) == 1 else (None if _oeq(got, acc) else f"expected {_n(acc)}, got {_n(got)}")
            if msg is None and not _same_shape(got, acc):
                msg = f"expected {_n(acc)}, got {_n(got)}"
        except Exception as e:  # noqa: BLE001
            msg = f"raised {type(e).__name__}: {e}"
        rec.outcome(f"{fname}:{rr[0]}")
        if msg:
            rec.violation(f"C15|{fname}", case, msg)


def _fold(ops):
    acc = ops[0]
    for o in ops[1:]:
        acc = acc + o
    return acc


def _peq(pa, pb):
    if type(pa) is CodeRange and type(pb) is CodeRange:
        return ((pa.start.index, pa.end.index) == (pb.start.index, pb.end.index)
                and all(p in (PV(p.index, 0), PV(p.index, 1)) for p in (pa.start, pa.end, pb.start, pb.end)))
    return pa == pb


def _oeq(a, b):
    """Equality of two origins; two plain code origins are compared by source and indexes, each point being one of the
    two labelled points this harness uses for that index (the label a hull point carries is unspecified)."""
    if type(a) is CodeOrigin and type(b) is CodeOrigin:
        pa, pb = a.position, b.position
        return (a.source == b.source and (pa.start.index, pa.end.index) == (pb.start.index, pb.end.index)
                and all(p in (PV(p.index, 0), PV(p.index, 1)) for p in (pa.start, pa.end, pb.start, pb.end)))
    return a == b


def _same_shape(got, exp):
    if isinstance(exp, MultiOrigin):
        return isinstance(got, MultiOrigin) and len(got.origins) == len(exp.origins) and all(_oeq(a, b) for a, b in zip(got.origins, exp.origins))
    if exp is NO_ORIGIN:
        return got is NO_ORIGIN
    return type(got) is type(exp) and _oeq(got, exp)


def plan(tier, seed):
    return [{"k": i, "of": NSHARDS, "g": G[tier], "maxlen": 4 if tier == "quick" else 5} for i in range(NSHARDS)]


def run_shard(cfg):
    rec = Rec(cfg)
    if cfg["k"] == 0:
        check_points(rec, cfg["g"])
        check_raw(rec, cfg["g"])
    check_range_laws(rec, cfg["g"], cfg["k"], cfg["of"])
    check_algebra(rec, cfg["k"], cfg["of"], cfg["maxlen"])
    rec.bound = {"grid": cfg["g"], "max_operands": cfg["maxlen"]}
    return rec.result()


def replay(case, cfg):
    cfg = dict(cfg, k=0, of=1)
    cfg.setdefault("g", 5)
    cfg.setdefault("maxlen", 4)
    return run_shard(cfg)["violations"]
