"""C13 - runtime type checking accepts exactly the well-typed constructions.

E1 over (annotation, value) pairs x the switch.  Annotations: every term of the type grammar (mc.ref.types) to
depth 2 (thorough: 3 over a reduced atom set) that the C11 reference classifies as child or property; each becomes a
one-field class.  Values: both booleans, 0/1, a float, strings, None, an enum member, nodes of every class, and tuples
/ lists / frozensets / dicts of these.  With RUNTIME_TYPE_CHECK on, construction must succeed iff the reference
`conforms`, otherwise raise InvalidTypes naming exactly that field; with it off, construction succeeds and yields the
same field value and content_id.  Multi-field classes mix conforming and non-conforming fields (incl. an init=False
default and origin): invalid_fields must be exactly the non-conforming fields.  Switch histories (E2): every sequence of
<= 2 (thorough 3) operations from a menu of 27 succeeding and failing library operations (constructions, replace,
duplicate, round trips and failing loads in four formats, traversal, Tree, xpath, patterns, transformers) x the switch:
the configuration must be what the user set and construction must still be checked iff the switch is on.
"""
from __future__ import annotations

import itertools
import sys
import types

from .. import boot  # noqa: F401
from pyoak import config
from pyoak import serialize as _ser
from pyoak import types as _pytypes
from pyoak.error import InvalidTypes
from pyoak.node import NODE_REGISTRY
from pyoak.origin import NO_ORIGIN

from ..core import Rec
from ..ref import types as RT

PID = "C13"
RULE = (
    "annotations: all grammar terms to the depth bound that the reference classifies as child or property (binary constructors "
    "take their second argument from {int, None, N2, str}); values: a 27-value pool; every (annotation, value) pair is "
    "constructed with the switch on and off.  states = distinct annotations (one generated class each); transitions = "
    "constructions compared with the reference; non-trivial = annotations that accept at least one pool value and reject at least one. "
    "Switch histories: all sequences of <= 2 (thorough 3) of 27 library operations x switch on/off, configuration and verdict probes after each. "
    "Pairs the statement leaves open (bool for float, bool/float against numeric literals) are not judged"
)
ASSUMPTIONS = [
    "A3: bool vs float and cross-type numeric literal membership are unspecified and skipped",
    "A5: a class whose (de)serializer mashumaro cannot build is counted as backend_unsupported and not judged",
    "with the switch off only conforming values (and non-conforming property values) are constructed; a wrong value in a child field may break the digest and is not judged",
]
NSHARDS = 16
ATOMS = ["int", "str", "float", "bool", "Any", "None", "Lit", "Enum", "NI", "NN", "N1", "N2"]
SECOND = ["int", "None", "N2", "str"]
ATOMS_RED = ["int", "bool", "None", "N1", "NI"]
SECOND_RED = ["None", "N2"]
_counter = itertools.count()
_SW = [None]   # the other configuration switches in force (recorded in every case for replay)


def _swc():
    return {"other_switches": _SW[0]} if _SW[0] else {}


def make_module():
    mod = types.ModuleType(f"mc_c13_gen_{next(_counter)}")
    sys.modules[mod.__name__] = mod
    exec(compile(RT.PRELUDE.replace("class E(", "class E(").replace("class N1(", "class N1("), "<c13-prelude>", "exec", dont_inherit=True), mod.__dict__)
    return mod


def pool(g):
    n1, n2, n1b = g["N1"](1), g["N2"](2), g["N1"](3)
    E = g["E"]
    return [True, False, 0, 1, 1.5, "a", "z", None, E.A, n1, n2, (), (1,), (True,), ("a", 1), (1, "a"), (n1,), (n2, n1b), (n1, None),
            (1, 2, 3), (1, 2), (None, None), [1], [n1], frozenset({1}), frozenset({"a"}), {"a": 1}]


def accepted_terms(tier):
    ts = RT.terms(2, ATOMS, SECOND)
    if tier == "thorough":
        ts += [t for t in RT.terms(3, ATOMS_RED, SECOND_RED) if t not in set(ts)]
    seen = set()
    for t in ts:
        if t in seen or not RT.renderable(t, False):
            continue
        seen.add(t)
        if RT.classify(t) != "rejected" and "FR" not in RT.atoms_of(t):
            yield t


def define(mod, ann_src, extra=""):
    cname = f"Y{next(_counter)}"
    src = f"@dataclass(frozen=True)\nclass {cname}(ASTNode):\n    f: {ann_src}\n{extra}"
    exec(compile(src, f"<c13:{cname}>", "exec", dont_inherit=True), mod.__dict__)
    return mod.__dict__[cname]


def forget(cls):
    _ser.TYPES.pop(cls.__name__, None)
    for d in (_pytypes._TYPE_TO_ALL_FIELDS, _pytypes._TYPE_TO_CHILD_FIELDS, _pytypes._TYPE_TO_PROPS):
        d.pop(cls, None)


def is_backend_failure(exc) -> bool:
    tb = exc.__traceback__
    while tb is not None:
        if "mashumaro" in tb.tb_frame.f_code.co_filename:
            return True
        tb = tb.tb_next
    return False


def vrepr(v):
    return repr(v) if not hasattr(v, "content_id") else f"<{type(v).__name__}>"


def check_term(rec, mod, t, values, env):
    ann = RT.render(t, False)
    case = {"annotation": ann, "term": t, **_swc()}
    rec.count("states")
    rec.sample(case)
    try:
        cls = define(mod, ann)
    except Exception as e:  # noqa: BLE001
        if is_backend_failure(e):
            rec.count("backend_unsupported")
        elif type(e).__name__ == "InvalidFieldAnnotations":
            rec.count("rejected_by_implementation")  # classification is judged by C11, not here
        else:
            rec.violation("C13|define", case, f"accepted annotation cannot be defined: {type(e).__name__}: {str(e)[:150]}")
        return
    kind = RT.classify(t)
    acc = rej = 0
    for v in values:
        exp = RT.conforms(v, t, env)
        if exp is RT.UNSPEC:
            rec.count("unspecified_pairs")
            continue
        rec.count("transitions")
        rec.count("traces")
        rec.count("evaluations")
        acc += exp
        rej += not exp
        c = dict(case, value=vrepr(v))
        NODE_REGISTRY.clear()
        config.RUNTIME_TYPE_CHECK = True
        on = None
        try:
            on = cls(v)
            got = True
        except InvalidTypes as e:
            got = False
            if [f.name for f in e.invalid_fields] != ["f"]:
                rec.violation("C13|invalid_fields", c, f"invalid_fields is {[f.name for f in e.invalid_fields]}, expected ['f']")
        except Exception as e:  # noqa: BLE001
            got = None
            if is_backend_failure(e):
                rec.count("backend_unsupported")
            elif type(e).__name__ == "InvalidFieldAnnotations":
                rec.count("rejected_by_implementation")
                break
            else:
                rec.violation(f"C13|check-raises|{type(e).__name__}|{_shape(t)}|{_vkind(v)}", c, f"construction with checks on raised {type(e).__name__}: {str(e)[:150]}")
        finally:
            config.RUNTIME_TYPE_CHECK = False
        if got is not None and got is not exp:
            rec.violation(f"C13|{'accepts-ill-typed' if got else 'rejects-well-typed'}|{_shape(t)}|{_vkind(v)}", c,
                          f"checks on: construction {'succeeded' if got else 'raised InvalidTypes'}; {vrepr(v)} {'conforms' if exp else 'does not conform'} to {ann}")
        rec.outcome(f"{'accept' if exp else 'reject'}")
        # switch off
        if exp or kind == "property":
            NODE_REGISTRY.clear()
            try:
                off = cls(v)
            except Exception as e:  # noqa: BLE001
                rec.violation("C13|off-raises", c, f"construction with checks off raised {type(e).__name__}: {str(e)[:150]}")
                continue
            if on is not None and (off.f is not on.f or off.content_id != on.content_id):
                rec.violation("C13|off-differs", c, "node built with checks off differs from the one built with checks on")
    if acc and rej:
        rec.count("nontrivial")
    forget(cls)


def _shape(t):
    """Coarse shape: what the value meets at the top, and whether a NewType is involved."""
    ats = RT.atoms_of(t)
    top = "atom" if t[0] == "atom" else ("union" if RT.is_union(t) else "container")
    return top + ("+newtype" if ats & {"NI", "NN"} else "")


def _vkind(v):
    if isinstance(v, bool):
        return "bool"
    if isinstance(v, tuple):
        return "tuple"
    return type(v).__name__ if not hasattr(v, "content_id") else "node"


MULTI = '''
@dataclass(frozen=True)
class {name}(ASTNode):
    a: int
    b: tuple[N1, ...]
    c: Optional[str] = None
    d: bool = field(default={dflt}, init=False)
'''


def check_multi(rec, mod, g):
    n1 = g["N1"](1)
    for dflt, d_ok in (("False", True), ("0", False)):
        name = f"YM{next(_counter)}"
        exec(compile(MULTI.format(name=name, dflt=dflt), f"<c13:{name}>", "exec", dont_inherit=True), mod.__dict__)
        cls = mod.__dict__[name]
        for (a, a_ok), (b, b_ok), (c, c_ok), (o, o_ok) in itertools.product(
                [(1, True), (True, False)], [((n1,), True), ((1,), False)], [(None, True), (5, False)], [(NO_ORIGIN, True), ("x", False)]):
            exp = sorted(n for n, ok in (("a", a_ok), ("b", b_ok), ("c", c_ok), ("d", d_ok), ("origin", o_ok)) if not ok)
            case = {**_swc(), "multi": True, "default_d": dflt, "a": repr(a), "b": "ok" if b_ok else "(1,)", "c": repr(c), "origin": "NO_ORIGIN" if o_ok else "'x'"}
            rec.count("transitions")
            rec.count("traces")
            rec.count("evaluations")
            NODE_REGISTRY.clear()
            config.RUNTIME_TYPE_CHECK = True
            try:
                cls(a, b, c, origin=o)
                got = []
            except InvalidTypes as e:
                got = sorted(f.name for f in e.invalid_fields)
            except Exception as e:  # noqa: BLE001
                got = [f"<{type(e).__name__}>"]
            finally:
                config.RUNTIME_TYPE_CHECK = False
            if got != exp:
                rec.violation("C13|multi|invalid_fields", case, f"invalid fields {got}, expected exactly {exp}")
    check_wide(rec, mod, g)


WIDE_FIELDS = [(f"p{i:02d}", "int", "1", "'x'") for i in range(6)] + [(f"k{i:02d}", "Optional[N1]", "None", "7") for i in range(6, 10)] + \
    [("t10", "tuple[N1, ...]", "()", "(1,)"), ("s11", "str", "'s'", "None"), ("b12", "bool", "True", "1"), ("f13", "float", "1", "'1.0'")]


def check_wide(rec, mod, g):
    """A node with 14 fields (+ origin): for EVERY subset of fields holding a non-conforming value (any number of them,
    from none to all 15) invalid_fields is exactly that subset."""
    name = f"YW{next(_counter)}"
    src = "@dataclass(frozen=True)\nclass " + name + "(ASTNode):\n" + "".join(f"    {n}: {a} = {ok}\n" for n, a, ok, _ in WIDE_FIELDS)
    exec(compile(src, f"<c13:{name}>", "exec", dont_inherit=True), mod.__dict__)
    cls = mod.__dict__[name]
    good = {n: eval(ok, mod.__dict__) for n, _, ok, _ in WIDE_FIELDS}
    bad = {n: eval(b, mod.__dict__) for n, _, _, b in WIDE_FIELDS}
    good["origin"], bad["origin"] = NO_ORIGIN, "x"
    names = list(good)
    sw = _SW[0] or {}
    full = not any(sw.values())
    for size in range(len(names) + 1):
        if not full and 1 < size < 10:
            continue
        for sub in itertools.combinations(names, size):
            exp = sorted(sub)
            rec.count("transitions")
            rec.count("evaluations")
            NODE_REGISTRY.clear()
            config.RUNTIME_TYPE_CHECK = True
            try:
                cls(**{n: (bad[n] if n in sub else good[n]) for n in names})
                got = []
            except InvalidTypes as e:
                got = sorted(f.name for f in e.invalid_fields)
            except Exception as e:  # noqa: BLE001
                got = [f"<{type(e).__name__}>"]
            finally:
                config.RUNTIME_TYPE_CHECK = False
            if got != exp:
                rec.rank = size
                rec.violation("C13|multi|invalid_fields|wide", {**_swc(), "multi": True, "wide": exp}, f"{len(exp)} non-conforming fields {exp}, reported {got}")
        rec.count("traces")
    forget(cls)


HIER = '''
@dataclass(frozen=True)
class {b}(ASTNode):
    a: int = 0

@dataclass(frozen=True)
class {d}({b}):
    g: str = ""
    kid: Optional[N1] = None

@dataclass(frozen=True)
class {e}({d}):
    a: str = "re-annotated"
    h: tuple[int, ...] = ()
'''


def check_hierarchy(rec, mod, g):
    """Checked fields of a class hierarchy must not depend on which class was constructed (with checks on) first."""
    n1 = g["N1"](1)
    for first in ("base", "derived", "leaf", "bare-ASTNode"):
        b, d, e = (f"YH{next(_counter)}" for _ in range(3))
        exec(compile(HIER.format(b=b, d=d, e=e), f"<c13:{b}>", "exec", dont_inherit=True), mod.__dict__)
        B, D, E = g[b], g[d], g[e]
        config.RUNTIME_TYPE_CHECK = True
        try:
            NODE_REGISTRY.clear()
            {"base": lambda: B(1), "derived": lambda: D(1, "x", n1), "leaf": lambda: E("s", "x", None, (1,)), "bare-ASTNode": lambda: g["ASTNode"]()}[first]()
            cases = [
                (B, dict(a=1), []), (B, dict(a="x"), ["a"]),
                (D, dict(a=1, g="x", kid=n1), []), (D, dict(a=1, g=5), ["g"]), (D, dict(a=True, g="x", kid=3), ["a", "kid"]),
                (E, dict(a="s", g="x", h=(1, 2)), []), (E, dict(a=1, g="x"), ["a"]), (E, dict(a="s", g=None, h=("x",)), ["g", "h"]),
            ]
            for cls, kw, exp in cases:
                rec.count("transitions"); rec.count("traces"); rec.count("evaluations")
                case = {**_swc(), "hierarchy": True, "first_constructed": first, "class": {B: "Base", D: "Derived", E: "Leaf"}[cls], "values": {k: vrepr(v) for k, v in kw.items()}}
                NODE_REGISTRY.clear()
                try:
                    cls(**kw)
                    got = []
                except InvalidTypes as ex:
                    got = sorted(f.name for f in ex.invalid_fields)
                except Exception as ex:  # noqa: BLE001
                    got = [f"<{type(ex).__name__}>"]
                if got != exp:
                    rec.violation("C13|hierarchy|invalid_fields", case, f"first constructed: {first}; invalid fields {got}, expected exactly {exp}")
                rec.outcome(f"hierarchy:{'accept' if not exp else 'reject'}")
        finally:
            config.RUNTIME_TYPE_CHECK = False
        for c in (B, D, E):
            forget(c)

SWSRC = '''
@dataclass(frozen=True)
class SW(ASTNode):
    a: int = 0
    kid: Optional[N1] = None
    kids: tuple[N1, ...] = ()

@dataclass(frozen=True)
class SWR(ASTNode):
    need: int
    kid: Optional[SW] = None
'''


def _must_be_none(x):
    if x is not None:
        raise AssertionError("harness: expected a rejected pattern")


def switch_ops(g):
    """A menu of library operations - succeeding and failing ones - that may run between setting the switch and a
    construction.  None of them is documented to touch the configuration."""
    from pyoak.match.pattern import NodeMatcher
    from pyoak.match.xpath import ASTXpath
    from pyoak.tree import Tree
    from pyoak.visitor import ASTTransformVisitor

    SW, SWR, N1, ASTNode = g["SW"], g["SWR"], g["N1"], g["ASTNode"]

    def tree():
        return SWR(1, SW(2, N1(3), (N1(4), N1(5))))

    def payload():
        t = tree()
        d = t.as_dict()
        NODE_REGISTRY.clear()
        return d

    def drop(d, key):
        d = dict(d)
        d.pop(key)
        return d

    class Boomer(ASTTransformVisitor):
        def visit_N1(self, node):
            raise RuntimeError("boom")

    class Bump(ASTTransformVisitor):
        def visit_N1(self, node):
            return node.replace(v=node.v + 1)

    def bad_child(d):
        d = dict(d)
        d["kid"] = dict(d["kid"], kid={"__type": "NoSuchClass", "v": 1})
        return d

    return {
        "construct-ok": lambda: tree(),
        "construct-ill": lambda: SW(a="x"),
        "construct-ill-child": lambda: SWR(1, kid=N1(1)),
        "replace-ok": lambda: tree().replace(need=2),
        "replace-ill": lambda: tree().replace(need="x"),
        "duplicate": lambda: tree().duplicate(),
        "roundtrip-dict": lambda: ASTNode.as_obj(payload()),
        "roundtrip-json": lambda: ASTNode.from_json(tree().to_json()),
        "roundtrip-msgpack": lambda: ASTNode.from_msgpck(tree().to_msgpck()),
        "roundtrip-yaml": lambda: ASTNode.from_yaml(tree().to_yaml()),
        "roundtrip-registered": lambda: (lambda t: ASTNode.as_obj(t.as_dict()))(tree()),
        "load-missing-field": lambda: ASTNode.as_obj(drop(payload(), "need")),
        "load-unknown-type": lambda: ASTNode.as_obj(dict(payload(), __type="NoSuchClass")),
        "load-bad-child": lambda: ASTNode.as_obj(bad_child(payload())),
        "load-wrong-value": lambda: ASTNode.as_obj(dict(payload(), need="x")),
        "load-bad-json": lambda: ASTNode.from_json("{not json"),
        "load-bad-msgpack": lambda: ASTNode.from_msgpck(b"\xc1\xc1"),
        "load-bad-yaml": lambda: ASTNode.from_yaml("a: [1"),
        "load-typed-missing": lambda: SWR.as_obj(drop(payload(), "need")),
        "traverse": lambda: (list(tree().dfs()), list(tree().bfs()), list(tree().gather(N1))),
        "tree-queries": lambda: (lambda t: [Tree(t).get_xpath(i.node) for i in t.dfs()])(tree()),
        "xpath-ok": lambda: list(ASTXpath("//N1").findall(tree())),
        "xpath-bad": lambda: ASTXpath("//["),
        "pattern-ok": lambda: NodeMatcher.from_pattern('(SW @a="2" @kids=[(N1) *])')[0].match(tree().kid),
        "pattern-bad": lambda: _must_be_none(NodeMatcher.from_pattern("(SW @")[0]),
        "transform-ok": lambda: Bump().transform(tree()),
        "transform-raises": lambda: Boomer().transform(tree()),
    }


def _switch_case(rec, g, ops, hist, on):
    SW, N1 = g["SW"], g["N1"]
    rec.count("states"); rec.count("transitions"); rec.count("traces"); rec.count("evaluations")
    case = {"switch_history": list(hist), "switch": on}
    NODE_REGISTRY.clear()
    config.RUNTIME_TYPE_CHECK = on
    before = {n: getattr(config, n) for n in dir(config) if n.isupper()}
    try:
        for name in hist:
            try:
                ops[name]()
                rec.outcome(f"op:{name}:ok")
            except Exception as e:  # noqa: BLE001
                rec.outcome(f"op:{name}:{type(e).__name__}")
            after = {n: getattr(config, n) for n in dir(config) if n.isupper()}
            if after != before:
                diff = {n: (before[n], after[n]) for n in before if before[n] != after.get(n)}
                rec.violation("C13|switch|configuration-changed", case, f"after {name}: the library changed the configuration: {diff}")
                break
        NODE_REGISTRY.clear()
        probes = [(dict(a="x"), ["a"]), (dict(a=1, kid=N1(1), kids=(N1(2),)), []), (dict(a=True), ["a"])]
        for kw, bad in probes:
            try:
                SW(**kw)
                got = []
            except InvalidTypes as e:
                got = sorted(f.name for f in e.invalid_fields)
            except Exception as e:  # noqa: BLE001
                got = [f"<{type(e).__name__}>"]
            exp = bad if on else []
            if got != exp:
                rec.violation(f"C13|switch|{'not-checked' if on else 'checked-although-off'}", case,
                              f"switch {'on' if on else 'off'}: constructing SW({', '.join(kw)}) gave invalid fields {got}, expected {exp}")
                break
    finally:
        config.RUNTIME_TYPE_CHECK = False


def check_switch_history(rec, mod, g, maxlen, k=0, of=1):
    """The switch is read, never written, by the library: after any history of operations (failing ones included) the
    configuration is what the user set and construction is still checked iff the switch is on."""
    if "SW" not in g:
        exec(compile(SWSRC, "<c13:SW>", "exec", dont_inherit=True), mod.__dict__)
    ops = switch_ops(g)
    SW, N1 = g["SW"], g["N1"]
    names = list(ops)
    idx = 0
    for ln in range(0, maxlen + 1):
        for hist in itertools.product(names, repeat=ln):
            idx += 1
            if idx % of != k:
                continue
            for on in (True, False):
                _switch_case(rec, g, ops, hist, on)
    rec.bound["switch_history_length"] = maxlen
    rec.extra["switch_ops"] = names


class other_switches:
    """The configuration switches that have nothing to do with type checking, turned on for the duration of a block
    (CODEGEN_DEBUG prints generated code: stdout is swallowed meanwhile)."""

    COMBOS = [(False, False), (True, False), (False, True), (True, True)]

    def __init__(self, trace, codegen):
        self.trace, self.codegen = trace, codegen

    def __enter__(self):
        import contextlib
        import io

        self.saved = (config.TRACE_LOGGING, config.CODEGEN_DEBUG)
        config.TRACE_LOGGING, config.CODEGEN_DEBUG = self.trace, self.codegen
        self.redir = contextlib.redirect_stdout(io.StringIO())
        self.redir.__enter__()
        return self

    def __exit__(self, *exc):
        self.redir.__exit__(*exc)
        config.TRACE_LOGGING, config.CODEGEN_DEBUG = self.saved
        return False


def plan(tier, seed):
    return [{"k": i, "of": NSHARDS, "tier": tier} for i in range(NSHARDS)]


def run_shard(cfg):
    rec = Rec(cfg)
    mod = make_module()
    g = mod.__dict__
    values = pool(g)
    env = {"N1": g["N1"], "N2": g["N2"], "E": g["E"]}
    # multi-field and hierarchy families under every combination of the other two switches; every term under the default
    # configuration and once more under one of the other three combinations (rotating with the term index)
    for ci, (tr, cg) in enumerate(other_switches.COMBOS):
        if cfg["k"] == ci % cfg["of"]:
            with other_switches(tr, cg):
                _SW[0] = {"TRACE_LOGGING": tr, "CODEGEN_DEBUG": cg}
                check_multi(rec, mod, g)
                check_hierarchy(rec, mod, g)
                _SW[0] = None
    check_switch_history(rec, mod, g, 3 if cfg["tier"] == "thorough" else 2, cfg["k"], cfg["of"])
    for idx, t in enumerate(accepted_terms(cfg["tier"])):
        if idx % cfg["of"] != cfg["k"]:
            continue
        rec.rank = idx
        check_term(rec, mod, t, values, env)
        tr, cg = other_switches.COMBOS[1 + idx % 3]
        with other_switches(tr, cg):
            _SW[0] = {"TRACE_LOGGING": tr, "CODEGEN_DEBUG": cg}
            check_term(rec, mod, t, values, env)
            _SW[0] = None
    rec.bound.update({"annotation_depth": 3 if cfg["tier"] == "thorough" else 2, "values": len(values)})
    return rec.result()


def _replay_switch(rec, mod, g, case):
    _switch_case(rec, g, switch_ops(g), tuple(case["switch_history"]), bool(case["switch"]))


def replay(case, cfg):
    rec = Rec(cfg)
    mod = make_module()
    g = mod.__dict__
    env = {"N1": g["N1"], "N2": g["N2"], "E": g["E"]}
    sw = case.get("other_switches")
    if sw:
        with other_switches(sw["TRACE_LOGGING"], sw["CODEGEN_DEBUG"]):
            _SW[0] = sw
            try:
                return replay({k: v for k, v in case.items() if k != "other_switches"}, cfg)
            finally:
                _SW[0] = None
    if case.get("switch_history") is not None:
        exec(compile(SWSRC, "<c13:SW>", "exec", dont_inherit=True), mod.__dict__)
        _replay_switch(rec, mod, g, case)
    elif case.get("hierarchy"):
        check_hierarchy(rec, mod, g)
    elif case.get("multi"):
        check_multi(rec, mod, g)
    else:
        check_term(rec, mod, case["term"], pool(g), env)
    return rec.result()["violations"]
