"""C13 - runtime type checking accepts exactly the well-typed constructions.

E1 over (annotation, value) pairs x the switch.  Annotations: every term of the type grammar (mc.ref.types) to
depth 2 (thorough: 3 over a reduced atom set) that the C11 reference classifies as child or property; each becomes a
one-field class.  Values: both booleans, 0/1, a float, strings, None, an enum member, nodes of every class, and tuples
/ lists / frozensets / dicts of these.  With RUNTIME_TYPE_CHECK on, construction must succeed iff the reference
`conforms`, otherwise raise InvalidTypes naming exactly that field; with it off, construction succeeds and yields the
same field value and content_id.  Multi-field classes mix conforming and non-conforming fields (incl. an init=False
default and origin): invalid_fields must be exactly the non-conforming fields.
"""
from __future__ import annotations

import itertools
import sys
import types

from .. import boot  # noqa: F401
from pyoak import config
from pyoak import serialize as _ser
from pyoak import types as _pytypes
from pyoak.error import InvalidTypes
from pyoak.node import NODE_REGISTRY
from pyoak.origin import NO_ORIGIN

from ..core import Rec
from ..ref import types as RT

PID = "C13"
RULE = (
    "annotations: all grammar terms to the depth bound that the reference classifies as child or property (binary constructors "
    "take their second argument from {int, None, N2, str}); values: a 27-value pool; every (annotation, value) pair is "
    "constructed with the switch on and off.  states = distinct annotations (one generated class each); transitions = "
    "constructions compared with the reference; non-trivial = annotations that accept at least one pool value and reject at least one. "
    "Pairs the statement leaves open (bool for float, bool/float against numeric literals) are not judged"
)
ASSUMPTIONS = [
    "A3: bool vs float and cross-type numeric literal membership are unspecified and skipped",
    "A5: a class whose (de)serializer mashumaro cannot build is counted as backend_unsupported and not judged",
    "with the switch off only conforming values (and non-conforming property values) are constructed; a wrong value in a child field may break the digest and is not judged",
]
NSHARDS = 16
ATOMS = ["int", "str", "float", "bool", "Any", "None", "Lit", "Enum", "NI", "NN", "N1", "N2"]
SECOND = ["int", "None", "N2", "str"]
ATOMS_RED = ["int", "bool", "None", "N1", "NI"]
SECOND_RED = ["None", "N2"]
_counter = itertools.count()


def make_module():
    mod = types.ModuleType(f"mc_c13_gen_{next(_counter)}")
    sys.modules[mod.__name__] = mod
    exec(compile(RT.PRELUDE.replace("class E(", "class E(").replace("class N1(", "class N1("), "<c13-prelude>", "exec", dont_inherit=True), mod.__dict__)
    return mod


def pool(g):
    n1, n2, n1b = g["N1"](1), g["N2"](2), g["N1"](3)
    E = g["E"]
    return [True, False, 0, 1, 1.5, "a", "z", None, E.A, n1, n2, (), (1,), (True,), ("a", 1), (1, "a"), (n1,), (n2, n1b), (n1, None),
            (1, 2, 3), (1, 2), (None, None), [1], [n1], frozenset({1}), frozenset({"a"}), {"a": 1}]


def accepted_terms(tier):
    ts = RT.terms(2, ATOMS, SECOND)
    if tier == "thorough":
        ts += [t for t in RT.terms(3, ATOMS_RED, SECOND_RED) if t not in set(ts)]
    seen = set()
    for t in ts:
        if t in seen or not RT.renderable(t, False):
            continue
        seen.add(t)
        if RT.classify(t) != "rejected" and "FR" not in RT.atoms_of(t):
            yield t


def define(mod, ann_src, extra=""):
    cname = f"Y{next(_counter)}"
    src = f"@dataclass(frozen=True)\nclass {cname}(ASTNode):\n    f: {ann_src}\n{extra}"
    exec(compile(src, f"<c13:{cname}>", "exec", dont_inherit=True), mod.__dict__)
    return mod.__dict__[cname]


def forget(cls):
    _ser.TYPES.pop(cls.__name__, None)
    for d in (_pytypes._TYPE_TO_ALL_FIELDS, _pytypes._TYPE_TO_CHILD_FIELDS, _pytypes._TYPE_TO_PROPS):
        d.pop(cls, None)


def is_backend_failure(exc) -> bool:
    tb = exc.__traceback__
    while tb is not None:
        if "mashumaro" in tb.tb_frame.f_code.co_filename:
            return True
        tb = tb.tb_next
    return False


def vrepr(v):
    return repr(v) if not hasattr(v, "content_id") else f"<{type(v).__name__}>"


def check_term(rec, mod, t, values, env):
    ann = RT.render(t, False)
    case = {"annotation": ann, "term": t}
    rec.count("states")
    rec.sample(case)
    try:
        cls = define(mod, ann)
    except Exception as e:  # noqa: BLE001
        if is_backend_failure(e):
            rec.count("backend_unsupported")
        elif type(e).__name__ == "InvalidFieldAnnotations":
            rec.count("rejected_by_implementation")  # classification is judged by C11, not here
        else:
            rec.violation("C13|define", case, f"accepted annotation cannot be defined: {type(e).__name__}: {str(e)[:150]}")
        return
    kind = RT.classify(t)
    acc = rej = 0
    for v in values:
        exp = RT.conforms(v, t, env)
        if exp is RT.UNSPEC:
            rec.count("unspecified_pairs")
            continue
        rec.count("transitions")
        rec.count("traces")
        rec.count("evaluations")
        acc += exp
        rej += not exp
        c = dict(case, value=vrepr(v))
        NODE_REGISTRY.clear()
        config.RUNTIME_TYPE_CHECK = True
        on = None
        try:
            on = cls(v)
            got = True
        except InvalidTypes as e:
            got = False
            if [f.name for f in e.invalid_fields] != ["f"]:
                rec.violation("C13|invalid_fields", c, f"invalid_fields is {[f.name for f in e.invalid_fields]}, expected ['f']")
        except Exception as e:  # noqa: BLE001
            got = None
            if is_backend_failure(e):
                rec.count("backend_unsupported")
            elif type(e).__name__ == "InvalidFieldAnnotations":
                rec.count("rejected_by_implementation")
                break
            else:
                rec.violation(f"C13|check-raises|{type(e).__name__}|{_shape(t)}|{_vkind(v)}", c, f"construction with checks on raised {type(e).__name__}: {str(e)[:150]}")
        finally:
            config.RUNTIME_TYPE_CHECK = False
        if got is not None and got is not exp:
            rec.violation(f"C13|{'accepts-ill-typed' if got else 'rejects-well-typed'}|{_shape(t)}|{_vkind(v)}", c,
                          f"checks on: construction {'succeeded' if got else 'raised InvalidTypes'}; {vrepr(v)} {'conforms' if exp else 'does not conform'} to {ann}")
        rec.outcome(f"{'accept' if exp else 'reject'}")
        # switch off
        if exp or kind == "property":
            NODE_REGISTRY.clear()
            try:
                off = cls(v)
            except Exception as e:  # noqa: BLE001
                rec.violation("C13|off-raises", c, f"construction with checks off raised {type(e).__name__}: {str(e)[:150]}")
                continue
            if on is not None and (off.f is not on.f or off.content_id != on.content_id):
                rec.violation("C13|off-differs", c, "node built with checks off differs from the one built with checks on")
    if acc and rej:
        rec.count("nontrivial")
    forget(cls)


def _shape(t):
    """Coarse shape: what the value meets at the top, and whether a NewType is involved."""
    ats = RT.atoms_of(t)
    top = "atom" if t[0] == "atom" else ("union" if RT.is_union(t) else "container")
    return top + ("+newtype" if ats & {"NI", "NN"} else "")


def _vkind(v):
    if isinstance(v, bool):
        return "bool"
    if isinstance(v, tuple):
        return "tuple"
    return type(v).__name__ if not hasattr(v, "content_id") else "node"


MULTI = '''
@dataclass(frozen=True)
class {name}(ASTNode):
    a: int
    b: tuple[N1, ...]
    c: Optional[str] = None
    d: bool = field(default={dflt}, init=False)
'''


def check_multi(rec, mod, g):
    n1 = g["N1"](1)
    for dflt, d_ok in (("False", True), ("0", False)):
        name = f"YM{next(_counter)}"
        exec(compile(MULTI.format(name=name, dflt=dflt), f"<c13:{name}>", "exec", dont_inherit=True), mod.__dict__)
        cls = mod.__dict__[name]
        for (a, a_ok), (b, b_ok), (c, c_ok), (o, o_ok) in itertools.product(
                [(1, True), (True, False)], [((n1,), True), ((1,), False)], [(None, True), (5, False)], [(NO_ORIGIN, True), ("x", False)]):
            exp = sorted(n for n, ok in (("a", a_ok), ("b", b_ok), ("c", c_ok), ("d", d_ok), ("origin", o_ok)) if not ok)
            case = {"multi": True, "default_d": dflt, "a": repr(a), "b": "ok" if b_ok else "(1,)", "c": repr(c), "origin": "NO_ORIGIN" if o_ok else "'x'"}
            rec.count("transitions")
            rec.count("traces")
            rec.count("evaluations")
            NODE_REGISTRY.clear()
            config.RUNTIME_TYPE_CHECK = True
            try:
                cls(a, b, c, origin=o)
                got = []
            except InvalidTypes as e:
                got = sorted(f.name for f in e.invalid_fields)
            except Exception as e:  # noqa: BLE001
                got = [f"<{type(e).__name__}>"]
            finally:
                config.RUNTIME_TYPE_CHECK = False
            if got != exp:
                rec.violation("C13|multi|invalid_fields", case, f"invalid fields {got}, expected exactly {exp}")


HIER = '''
@dataclass(frozen=True)
class {b}(ASTNode):
    a: int = 0

@dataclass(frozen=True)
class {d}({b}):
    g: str = ""
    kid: Optional[N1] = None

@dataclass(frozen=True)
class {e}({d}):
    a: str = "re-annotated"
    h: tuple[int, ...] = ()
'''


def check_hierarchy(rec, mod, g):
    """Checked fields of a class hierarchy must not depend on which class was constructed (with checks on) first."""
    n1 = g["N1"](1)
    for first in ("base", "derived", "leaf", "bare-ASTNode"):
        b, d, e = (f"YH{next(_counter)}" for _ in range(3))
        exec(compile(HIER.format(b=b, d=d, e=e), f"<c13:{b}>", "exec", dont_inherit=True), mod.__dict__)
        B, D, E = g[b], g[d], g[e]
        config.RUNTIME_TYPE_CHECK = True
        try:
            NODE_REGISTRY.clear()
            {"base": lambda: B(1), "derived": lambda: D(1, "x", n1), "leaf": lambda: E("s", "x", None, (1,)), "bare-ASTNode": lambda: g["ASTNode"]()}[first]()
            cases = [
                (B, dict(a=1), []), (B, dict(a="x"), ["a"]),
                (D, dict(a=1, g="x", kid=n1), []), (D, dict(a=1, g=5), ["g"]), (D, dict(a=True, g="x", kid=3), ["a", "kid"]),
                (E, dict(a="s", g="x", h=(1, 2)), []), (E, dict(a=1, g="x"), ["a"]), (E, dict(a="s", g=None, h=("x",)), ["g", "h"]),
            ]
            for cls, kw, exp in cases:
                rec.count("transitions"); rec.count("traces"); rec.count("evaluations")
                case = {"hierarchy": True, "first_constructed": first, "class": {B: "Base", D: "Derived", E: "Leaf"}[cls], "values": {k: vrepr(v) for k, v in kw.items()}}
                NODE_REGISTRY.clear()
                try:
                    cls(**kw)
                    got = []
                except InvalidTypes as ex:
                    got = sorted(f.name for f in ex.invalid_fields)
                except Exception as ex:  # noqa: BLE001
                    got = [f"<{type(ex).__name__}>"]
                if got != exp:
                    rec.violation("C13|hierarchy|invalid_fields", case, f"first constructed: {first}; invalid fields {got}, expected exactly {exp}")
                rec.outcome(f"hierarchy:{'accept' if not exp else 'reject'}")
        finally:
            config.RUNTIME_TYPE_CHECK = False
        for c in (B, D, E):
            forget(c)


def plan(tier, seed):
    return [{"k": i, "of": NSHARDS, "tier": tier} for i in range(NSHARDS)]


def run_shard(cfg):
    rec = Rec(cfg)
    mod = make_module()
    g = mod.__dict__
    values = pool(g)
    env = {"N1": g["N1"], "N2": g["N2"], "E": g["E"]}
    if cfg["k"] == 0:
        check_multi(rec, mod, g)
    if cfg["k"] == 1 % cfg["of"]:
        check_hierarchy(rec, mod, g)
    for idx, t in enumerate(accepted_terms(cfg["tier"])):
        if idx % cfg["of"] != cfg["k"]:
            continue
        rec.rank = idx
        check_term(rec, mod, t, values, env)
    rec.bound = {"annotation_depth": 3 if cfg["tier"] == "thorough" else 2, "values": len(values)}
    return rec.result()


def replay(case, cfg):
    rec = Rec(cfg)
    mod = make_module()
    g = mod.__dict__
    env = {"N1": g["N1"], "N2": g["N2"], "E": g["E"]}
    if case.get("hierarchy"):
        check_hierarchy(rec, mod, g)
    elif case.get("multi"):
        check_multi(rec, mod, g)
    else:
        check_term(rec, mod, case["term"], pool(g), env)
    return rec.result()["violations"]
