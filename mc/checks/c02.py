"""C02 - == is content equality plus origin equality at every position.

E1: every tree with <= N nodes over 10 zoo classes x every assignment of 3 origins to its positions (3^n), compared
with itself, with a separately built copy, and with every single-position deviation over a 7-origin alphabet
(no-origin, code origins on two sources, an equal-but-distinct code origin, generated, multi); all pairs of
different small trees; non-node operands; symmetry, negation, reflexivity, transitivity on all triples of every
same-shape group, and constancy of hash().  Look-alike property values (0 / False / 0.0, 1 / True / 1.0, also nested in
tuples and frozensets): all ordered pairs of 20 values at four places; == iff equal values of equal types.
"""
from __future__ import annotations

import itertools
from dataclasses import dataclass
from typing import Any

from .. import boot  # noqa: F401
from pyoak.node import ASTNode
from pyoak.origin import merge_origins

from .. import zoo
from ..core import Rec

PID = "C02"
RULE = (
    "per tree (all trees with <= N nodes, lexicographic): all origin assignments over {none, a, b} to all positions; each "
    "compared (==, !=, swapped) with itself, an equal copy built separately, and every assignment that deviates at exactly one "
    "position over {none, a, a' (equal, distinct object), a'' (same fqn, unequal), b, other-source, generated, same-fqn-as-generated, multi, multi'}; all triples inside "
    "the group for transitivity (trees <= 2 nodes quick / 3 thorough); all ordered pairs of different trees with <= 2 (3) nodes. "
    "look-alike values: all ordered pairs of 20 values x 4 places. "
    "states = distinct (tree, assignment) nodes built; transitions = comparisons executed and compared with the reference; "
    "non-trivial = comparisons whose operands are content-equal trees with >= 2 positions that differ in origin at a non-root position"
)
ASSUMPTIONS = ["origin equality is taken from the descriptor: origins are equal iff built from the same alphabet letter (a' = a, multi' = multi)"]
N = {"quick": 3, "thorough": 4}
NPAIR = {"quick": 2, "thorough": 3}
NSHARDS = 16
UNIV = ["ZL", "ZK", "ZS", "ZF", "ZU", "ZO", "ZV", "ZX", "ZM", "ZD"]

O = dict(zoo.ORIGINS7)
O["a2"] = zoo.code_origin(zoo.SRC_A, 0, 1)
O["m2"] = merge_origins(zoo.O_A01, zoo.O_B01)
from pyoak.origin import CodeOrigin, get_code_range  # noqa: E402

O["af"] = CodeOrigin(zoo.SRC_A, get_code_range(0, 2, 5, 1, 2, 6))   # same fqn as "a" (indices 0-1) but other line/column: unequal
O["gf"] = CodeOrigin(zoo.SRC_B, get_code_range(0, 1, 0, 0, 1, 0))   # same fqn as the generated origin, other class: unequal
# multi-origins with the same source set and positions whose MEMBERS differ in class only
O["mg"] = merge_origins(zoo.O_A01, zoo.O_GEN)
O["mgf"] = merge_origins(zoo.O_A01, O["gf"])
OKEY = {k: k for k in O}
OKEY["a2"] = "a"
OKEY["m2"] = "m"
BASE3 = ["-", "a", "b"]
DEV = ["-", "a", "a2", "af", "b", "o", "g", "gf", "m", "m2", "mg", "mgf"]


def plan(tier, seed):
    return [{"n": N[tier], "npair": NPAIR[tier], "k": i, "of": NSHARDS} for i in range(NSHARDS)]


def build(U, d, assign):
    return U.build(d, origin=lambda p, dd: O[assign[p]])


def compare(rec, a, b, exp, case, what):
    rec.count("transitions")
    rec.count("traces")
    rec.count("evaluations")
    try:
        r1, r2, r3, r4 = (a == b), (b == a), (a != b), (b != a)
    except Exception as e:  # noqa: BLE001
        rec.violation(f"C02|{what}|raises", case, f"comparison raised {type(e).__name__}: {e}")
        return
    rec.outcome(f"{what}:{r1}")
    if r1 is not exp:
        rec.violation(f"C02|{what}|eq", case, f"a == b is {r1}, reference says {exp}")
    if r2 is not r1:
        rec.violation(f"C02|{what}|symmetry", case, "a == b differs from b == a")
    if r3 is not (not r1) or r4 is not (not r2):
        rec.violation(f"C02|{what}|ne", case, "!= is not the negation of ==")


def check_tree(U, d, rec: Rec, cfg):
    zoo.reset_registry()
    paths = [p for p, _ in U.positions(d)]
    n = len(paths)
    nodes = {}
    hashes = {}
    case0 = {"tree": d}
    rec.sample(case0)
    for combo in itertools.product(BASE3, repeat=n):
        A = dict(zip(paths, combo))
        a = build(U, d, A)
        nodes[combo] = a
        hashes[combo] = hash(a)
        rec.count("states")
    for combo, a in nodes.items():
        A = dict(zip(paths, combo))
        case = {"tree": d, "origins_a": list(combo)}
        compare(rec, a, a, True, case, "reflexive")
        copy = build(U, d, A)
        compare(rec, a, copy, True, dict(case, origins_b=list(combo)), "copy")
        del copy
        for i, p in enumerate(paths):
            for letter in DEV:
                if OKEY[letter] == combo[i] and letter == combo[i]:
                    continue
                combo_b = combo[:i] + (letter,) + combo[i + 1:]
                b = nodes.get(combo_b)
                if b is None:
                    B = dict(A)
                    B[p] = letter
                    b = build(U, d, B)
                exp = OKEY[letter] == combo[i]
                if n >= 2 and i > 0:
                    rec.count("nontrivial")
                compare(rec, a, b, exp, dict(case, origins_b=list(combo_b), deviates_at=p), "deviation")
                if len(p) >= 2 and letter in BASE3:
                    # non-initial state: the first tree is detached before the second is built, so that the two
                    # distinct live roots may carry the same id (ids cover only the node and its direct children)
                    a2 = build(U, d, A)
                    a2.detach()
                    B2 = dict(A)
                    B2[p] = letter
                    b2 = build(U, d, B2)
                    rec.outcome(f"same-id-pair:{a2.id == b2.id}")
                    compare(rec, a2, b2, exp, dict(case, origins_b=list(combo_b), deviates_at=p, route="built-after-detach"), "deviation-same-id")
                    del a2, b2
        for other in (None, "x", 0, a.id, a.content_id, (a,), zoo.NO_ORIGIN, EQUAL_TO_ANYTHING, Lookalike(a)):
            rec.count("evaluations")
            try:
                if (a == other) is not False or (a != other) is not True:
                    rec.violation("C02|non-node|eq", dict(case, other=repr(other)), "comparison with a non-node must be False")
                if isinstance(other, (AlwaysEqual, Lookalike)) and ([a].count(other) != 0 or other in [a]):
                    rec.violation("C02|non-node|eq", dict(case, other=repr(other)), "a list holding the node claims to contain a non-node")
            except Exception as e:  # noqa: BLE001
                rec.violation("C02|non-node|raises", dict(case, other=repr(other)), f"comparison with a non-node raised {type(e).__name__}")
    # every ordered pair of complete assignments over {none, a, b}: origins that MOVE between positions
    if n <= cfg["npair"] + 1:
        items = list(nodes.items())
        for (ca, a), (cb, b) in itertools.product(items, repeat=2):
            compare(rec, a, b, ca == cb, {"tree": d, "origins_a": list(ca), "origins_b": list(cb)}, "assignment-pair")
    else:  # larger trees: one origin moved from one position to another (two positions differ)
        for i, j in itertools.permutations(range(n), 2):
            ca = tuple("a" if t == i else "-" for t in range(n))
            cb = tuple("a" if t == j else "-" for t in range(n))
            compare(rec, nodes[ca], nodes[cb], False, {"tree": d, "origins_a": list(ca), "origins_b": list(cb)}, "assignment-pair")
    # every pair of letters of the full origin alphabet at every single position (the rest without origin)
    base = {p: "-" for p in paths}
    for i, p in enumerate(paths):
        built = {}
        for letter in DEV:
            A1 = dict(base)
            A1[p] = letter
            built[letter] = build(U, d, A1)
        for l1, l2 in itertools.product(DEV, repeat=2):
            if n >= 2 and i > 0:
                rec.count("nontrivial")
            compare(rec, built[l1], built[l2], OKEY[l1] == OKEY[l2], {"tree": d, "at": p, "origin_a": l1, "origin_b": l2}, "origin-pair")
        del built
    # transitivity on all triples of the group (nodes of one tree under all 3-origin assignments + one equal copy each)
    if n <= cfg["npair"]:
        group = list(nodes.items()) + [(c, build(U, d, dict(zip(paths, c)))) for c in nodes]
        for (ca, a), (cb, b), (cc, c) in itertools.product(group, repeat=3):
            rec.count("evaluations")
            if a == b and b == c and not (a == c):
                rec.violation("C02|transitivity", {"tree": d, "origins": [list(ca), list(cb), list(cc)]}, "a == b and b == c but not a == c")
    for combo, a in nodes.items():
        if hash(a) != hashes[combo]:
            rec.violation("C02|hash", {"tree": d, "origins_a": list(combo)}, "hash(node) changed during the node's lifetime")


_SAME_NAME_SRC = """
from dataclasses import dataclass
from typing import Any
from pyoak.node import ASTNode

@dataclass(frozen=True)
class SameName(ASTNode):
    v: Any = 0
    kid: ASTNode | None = None
"""


def check_same_name(rec: Rec):
    """Two DIFFERENT node classes that share one __name__ and field layout (a model factory called twice, a class redefined in a
    notebook): comparing a node with a node of another class is False, whatever the names."""
    import warnings

    with warnings.catch_warnings():
        warnings.simplefilter("ignore")
        ns1, ns2 = {}, {}
        exec(compile(_SAME_NAME_SRC, "<c02-same-name-1>", "exec", dont_inherit=True), ns1)
        exec(compile(_SAME_NAME_SRC, "<c02-same-name-2>", "exec", dont_inherit=True), ns2)
    A, B = ns1["SameName"], ns2["SameName"]
    zoo.reset_registry()
    builders = {"leaf": lambda K: K(1), "with-child": lambda K: K(2, zoo.ZL()), "as-child": lambda K: zoo.ZU(K(3)), "nested-same": lambda K: K(4, K(5))}
    for name, mk in builders.items():
        rec.count("states")
        a, b, a2 = mk(A), mk(B), mk(A)
        compare(rec, a, a2, True, {"same_name": True, "shape": name, "classes": "one class"}, f"same-name-classes:{name}")
        compare(rec, a, b, False, {"same_name": True, "shape": name, "classes": "two classes, one name"}, f"same-name-classes:{name}")


def check_shared_children(U, d, rec: Rec):
    """Operands that SHARE child objects: b is a with the subtree at one position rebuilt (its root carrying another origin,
    or the same one) and only the ancestors of that position re-created with dataclasses.replace - every other child, at
    every level, is the very same object in both trees.  a == b iff the origins agree."""
    import dataclasses

    zoo.reset_registry()
    pos = U.positions(d)
    if len(pos) < 3:
        return
    desc_at = dict(pos)
    for base in ("-", "a"):
        ia = {}
        a = U.build(d, origin=lambda p, dd: O[base], index=ia)
        for p, _ in pos[1:]:
            for letter in ("b", base):
                rec.count("states")
                new = U.build(desc_at[p], origin=lambda q, dd: O[letter] if q == () else O[base])
                cur, path = new, p
                while path:
                    parent = ia[path[:-1]]
                    fname, i = path[-1]
                    old = getattr(parent, fname)
                    val = cur if i is None or not isinstance(old, tuple) else old[:i] + (cur,) + old[i + 1:]
                    cur = dataclasses.replace(parent, **{fname: val})
                    path = path[:-1]
                shared = sum(1 for q, n in ia.items() if q and any(n is x for x in (i.node for i in cur.dfs())))
                if shared:
                    rec.count("nontrivial")
                compare(rec, a, cur, letter == base, {"tree": d, "shared_children": True, "rebuilt_at": [list(x) for x in p], "origin_there": letter, "origin_elsewhere": base},
                        "shared-children")
                del new, cur


def check_pairs(U, trees, rec: Rec, cfg):
    """All ordered pairs of different small trees, same origins everywhere: == iff structural keys equal (never, here)."""
    zoo.reset_registry()
    built = [(d, U.key(d), U.build(d)) for d in trees]
    for i, (da, ka, a) in enumerate(built):
        if i % cfg["of"] != cfg["k"]:
            continue
        for j, (db, kb, b) in enumerate(built):
            if i == j:
                continue
            rec.rank = 10**6 + i * 1000 + j
            compare(rec, a, b, ka == kb, {"tree": da, "tree_b": db}, "different-trees")


@dataclass(frozen=True)
class EV(ASTNode):
    v: Any = 0
    w: Any = None


class AlwaysEqual:
    """A non-node whose own __eq__ accepts everything (what unittest.mock.ANY does): node == it must still be False."""

    def __eq__(self, other):
        return True

    def __ne__(self, other):
        return False

    __hash__ = None

    def __repr__(self):
        return "<equal-to-anything>"


class Lookalike:
    """A non-node value object that compares by attributes a node also has."""

    def __init__(self, n):
        self.id, self.content_id, self.origin = n.id, n.content_id, n.origin

    def __eq__(self, other):
        return getattr(other, "id", None) == self.id and getattr(other, "content_id", None) == self.content_id

    __hash__ = None

    def __repr__(self):
        return "<lookalike value object>"


EQUAL_TO_ANYTHING = AlwaysEqual()
LOOKALIKES = [0, False, 0.0, 1, True, 1.0, "", "0", None, (), (0,), (False,), (0.0,), (1, 0), (True, False), frozenset(), frozenset({0}), frozenset({False}),
              frozenset({1}), frozenset({1.0})]


def typed_key(v):
    if isinstance(v, (tuple, frozenset)):
        ks = [typed_key(x) for x in v]
        return (type(v).__name__, tuple(ks) if isinstance(v, tuple) else tuple(sorted(map(repr, ks))))
    return (type(v).__name__, repr(v))


def check_values(rec: Rec, cfg):
    """Property values that are == in Python but differ in type (0 / False / 0.0, 1 / True / 1.0, nested in tuples and
    frozensets): nodes are == exactly when the values are equal AND of equal types (content equality of C01), at the root,
    in a single child field and inside a tuple."""
    places = {
        "root": lambda v: EV(v),
        "second-property": lambda v: EV(5, v),
        "single-child": lambda v: zoo.ZU(EV(v)),
        "in-tuple": lambda v: zoo.ZV((zoo.ZL(), EV(v))),
    }
    idx = 0
    for (pn, mk), va, vb in itertools.product(places.items(), LOOKALIKES, LOOKALIKES):
        idx += 1
        if idx % cfg["of"] != cfg["k"]:
            continue
        rec.rank = 2 * 10**6 + idx
        rec.count("states")
        zoo.reset_registry()
        a, b = mk(va), mk(vb)
        exp = typed_key(va) == typed_key(vb)
        if not exp and va == vb:
            rec.count("nontrivial")
        compare(rec, a, b, exp, {"lookalike": True, "place": pn, "a": repr(va), "b": repr(vb)}, "lookalike-values")



def check_deep(rec: Rec):
    """== on trees 3000 levels deep (beyond the interpreter's recursion limit): equal chains, and chains whose origins differ
    only at the bottom inner node or at the leaf."""
    zoo.reset_registry()
    a, _ = zoo.deep_chain(3000)
    b, _ = zoo.deep_chain(3000)
    c, _ = zoo.deep_chain(3000, bottom_origin=zoo.O_A01)
    d, _ = zoo.deep_chain(3000, leaf_origin=zoo.O_B01)
    for (na, x), (nb, y), exp in ((("a", a), ("b", b), True), (("a", a), ("c", c), False), (("a", a), ("d", d), False), (("c", c), ("d", d), False), (("c", c), ("c", c), True)):
        rec.count("states")
        compare(rec, x, y, exp, {"deep_chain": True, "a": na, "b": nb}, "deep-chain")


def run_shard(cfg):
    rec = Rec(cfg)
    # configuration dimension: every third shard runs with runtime type checking on (all inputs are well typed,
    # so nothing may change)
    from pyoak import config as _config

    _config.RUNTIME_TYPE_CHECK = cfg["k"] % 3 == 2
    _config.TRACE_LOGGING = cfg["k"] % 3 == 1   # the other switch a user may turn on; it only adds log records
    rec.extra["trace_logging_in_shard_1_mod_3"] = True
    rec.extra["runtime_type_check_in_shard_2_mod_3"] = True
    rec.extra['first_use'] = zoo.warm_up(cfg['k'])
    U = zoo.universe(UNIV)
    idx = 0
    for n in range(1, cfg["n"] + 1):
        for d in U.trees(n):
            mine = idx % cfg["of"] == cfg["k"]
            idx += 1
            if mine:
                rec.rank = idx
                check_tree(U, d, rec, cfg)
                check_shared_children(U, d, rec)
    small = [d for n in range(1, cfg["npair"] + 1) for d in U.trees(n)]
    check_pairs(U, small, rec, cfg)
    check_values(rec, cfg)
    if cfg["k"] == 5 % cfg["of"]:
        check_deep(rec)
    if cfg["k"] == 6 % cfg["of"]:
        check_same_name(rec)
    rec.bound = {"max_nodes": cfg["n"], "pairs_and_triples_up_to_nodes": cfg["npair"]}
    return rec.result()


def replay(case, cfg):
    rec = Rec(cfg)
    U = zoo.universe(UNIV)
    cfg = dict(cfg)
    cfg.setdefault("npair", 3)
    if case.get("same_name"):
        check_same_name(rec)
    elif case.get("shared_children"):
        check_shared_children(U, case["tree"], rec)
    elif case.get("deep_chain"):
        check_deep(rec)
    elif case.get("lookalike"):
        check_values(rec, dict(cfg, k=0, of=1))
    elif "tree_b" in case:
        zoo.reset_registry()
        a, b = U.build(case["tree"]), U.build(case["tree_b"])
        compare(rec, a, b, U.key(case["tree"]) == U.key(case["tree_b"]), case, "different-trees")
    else:
        check_tree(U, case["tree"], rec, cfg)
    return rec.result()["violations"]
