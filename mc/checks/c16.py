"""C16 - serialization options apply to the whole call and to nothing after it.

E2 + E3: the only state is the pair of process-global option slots, so the explored object is the sequence of calls.
Alphabet: as_dict / as_obj / to_json / from_json / to_msgpck / from_msgpck / to_yaml / from_yaml x option set in {none,
skip-class, sort-keys, both, AST-explorer dialect, AST-test dialect, index-based sources, a mashumaro dialect} on a
depth-3 tree whose nodes carry origins of several kinds.  Deviations (faults): a property serializer that raises when
it meets the tag of nested node k, for every k; for deserialization, every nested mapping of the payload gets an unknown
__type / a wrongly typed field / is replaced by garbage (originals unregistered so that deserialization descends).
Oracle (i): after every prefix of every sequence the option-less serializers return exactly the clean output and
option-less as_obj returns a tree == the original.  Oracle (ii), per call: sort-keys => every nested mapping lists
__type first and the rest sorted; skip-class => no __type anywhere; default => every non-empty mapping except {"idx": n}
carries __type; explorer dialect => every node mapping lists its child field names.
"""
from __future__ import annotations

import copy
import gc
import itertools
from dataclasses import dataclass, field

import msgpack
import orjson
import yaml
from mashumaro.dialect import Dialect

from .. import boot  # noqa: F401
from pyoak.node import AST_SERIALIZE_DIALECT_KEY, NODE_REGISTRY, ASTNode, ASTSerializationDialects
from pyoak.origin import (
    NO_ORIGIN,
    SOURCE_OPTIMIZED_SERIALIZATION_KEY,
    CodeOrigin,
    MemoryTextSource,
    XMLFileOrigin,
    XMLPath,
    get_code_range,
    merge_origins,
)
from pyoak.serialize import TYPE_KEY, SerializationOption

from ..core import Rec

PID = "C16"
ENGINE = "E2"
TECHNIQUE = "exhaustive enumeration of call sequences (histories) and fault positions over the process-global option slots, executed on the implementation; clean-state outputs as reference"
RULE = (
    "call instances: 8 entry points x 8 option sets, plus one faulty instance per (serializer, option set, nested node) and per "
    "(deserializer, fault kind, nested mapping).  quick: every single instance and every ordered pair over a core of instances; "
    "thorough: pairs over all instances and triples over the core.  states = distinct call sequences; transitions = calls executed "
    "on the real code (each followed by the option-less probe); non-trivial = sequences that contain a call with options or an "
    "injected fault before the probe"
)
ASSUMPTIONS = ["YAML output is always key-sorted by the YAML dumper; the sort-keys oracle is still applied to it"]
NSHARDS = 16
ARMED = [None]


def _ser_p(v):
    if v == ARMED[0]:
        raise RuntimeError("injected serialization fault")
    return v


@dataclass(frozen=True)
class SN(ASTNode):
    p: str = field(default="", metadata={"serialize": _ser_p})
    c: ASTNode | None = None
    items: tuple[ASTNode, ...] = ()
    Tag: str = "t"       # a field name that sorts BEFORE "__type"
    _Hidden__x: int = 0  # what a name-mangled private attribute looks like

    def __len__(self) -> int:  # container-like: falsy in a boolean context while `items` is empty (may still hold other children)
        return len(self.items)

    def __iter__(self):  # container-like: iterating over the node yields its `items`
        return iter(self.items)


class OmitNone(Dialect):
    omit_none = True


class IntShift(Dialect):
    serialization_strategy = {int: {"serialize": lambda x: x + 1000, "deserialize": lambda x: x - 1000}}  # noqa: RUF012


SRC1 = MemoryTextSource("0123456789", source_uri="mem://c16-1")
SRC2 = MemoryTextSource("abcdefghij", source_uri="mem://c16-2")
O1 = CodeOrigin(SRC1, get_code_range(0, 1, 0, 3, 1, 3))
O2 = CodeOrigin(SRC2, get_code_range(2, 1, 2, 5, 1, 5))
# an equal-but-distinct source object created later (the registry keeps the first one; origins may hold either)
SRC2B = MemoryTextSource("abcdefghij", source_uri="mem://c16-2")
O2B = CodeOrigin(SRC2B, get_code_range(2, 1, 2, 5, 1, 5))
OX = XMLFileOrigin(SRC2, XMLPath("/a/b[1]"))
OM = merge_origins(O1, O2)
TAGS = ["k0", "k1", "k2", "k3", "k4"]

OPTS = {
    "none": None,
    "skip": {SerializationOption.SKIP_CLASS: True},
    "sort": {SerializationOption.SORT_KEYS: True},
    "both": {SerializationOption.SKIP_CLASS: True, SerializationOption.SORT_KEYS: True},
    "explorer": {AST_SERIALIZE_DIALECT_KEY: ASTSerializationDialects.AST_EXPLORER},
    "test": {AST_SERIALIZE_DIALECT_KEY: ASTSerializationDialects.AST_TEST},
    "srcidx": {SOURCE_OPTIMIZED_SERIALIZATION_KEY: True},
    "dialect": "MASHUMARO",
    "flagdialect": "MASHUMARO-FLAGS",   # a dialect that works through a flag only (omit_none), no per-type strategies
}


def build():
    NODE_REGISTRY.clear()
    leaf = SN("k4", origin=OX)
    mid = SN("k2", c=leaf, items=(SN("k3", origin=NO_ORIGIN),), origin=O2B)
    return SN("k0", c=SN("k1", origin=OM), items=(mid,), origin=O1)


def kwargs_for(fn, opt):
    if opt == "none":
        return {}
    if opt == "dialect":
        return {"mashumaro_dialect": IntShift} if fn in ("as_dict", "as_obj", "to_yaml", "from_yaml") else None
    if opt == "flagdialect":
        return {"mashumaro_dialect": OmitNone} if fn in ("as_dict", "to_yaml") else None
    return {"serialization_options": dict(OPTS[opt])}


POSITIONAL = {"sort", "srcidx"}  # these option sets are passed BY POSITION (documented parameter order)


PASSED_OPTIONS = []   # (the mapping handed to the library, a copy taken before the call) of the last call


def call(obj_or_cls, name, payload, opt):
    """Invoke one entry point, by keyword or - for two option sets - by position."""
    kw = kwargs_for(name, opt)
    PASSED_OPTIONS.clear()
    if "serialization_options" in kw:
        PASSED_OPTIONS.append((kw["serialization_options"], dict(kw["serialization_options"])))
    f = method(obj_or_cls, name)
    args = [] if payload is None else [payload]
    if opt in POSITIONAL and "serialization_options" in kw:
        so = kw["serialization_options"]
        if name in ("as_dict", "to_yaml", "from_yaml"):
            return f(*args, None, so)            # (mashumaro_dialect, serialization_options)
        if name in ("to_json", "to_json_indented"):
            return f(*args, indent=False, serialization_options=so)   # keyword-only in the API (the indented variant overrides indent)
        if name in ("as_obj",):
            return f(*args, serialization_options=so)                 # keyword-only in the API
        return f(*args, so)                      # to_msgpck(opts), from_json(value, opts), from_msgpck(value, opts)
    return f(*args, **kw)


def mappings(x, path=()):
    """All nested dicts of a payload with their paths."""
    out = []
    if isinstance(x, dict):
        out.append((path, x))
        for k, v in x.items():
            out += mappings(v, path + (k,))
    elif isinstance(x, list):
        for i, v in enumerate(x):
            out += mappings(v, path + (i,))
    return out


def set_at(root, path, value):
    cur = root
    for k in path[:-1]:
        cur = cur[k]
    cur[path[-1]] = value


def encode(fmt, d):
    if fmt == "dict":
        return d
    if fmt == "json":
        return orjson.dumps(d)
    if fmt == "msgpck":
        return msgpack.packb(d, use_bin_type=True)
    return yaml.dump(d)


def decode(fmt, payload):
    if fmt == "dict":
        return payload
    if fmt in ("json", "json-indented"):
        return orjson.loads(payload)
    if fmt == "msgpck":
        return msgpack.unpackb(payload, raw=False)
    return yaml.safe_load(payload)


SER = {"dict": "as_dict", "json": "to_json", "msgpck": "to_msgpck", "yaml": "to_yaml", "json-indented": "to_json_indented"}


def method(obj, name):
    """Bound entry point; 'to_json_indented' is to_json(indent=True) - the other branch of the JSON wrapper."""
    if name == "to_json_indented":
        return lambda *a, **k: obj.to_json(*a, **dict({kk: vv for kk, vv in k.items() if kk != "indent"}, indent=True))
    return getattr(obj, name)
DES = {"dict": "as_obj", "json": "from_json", "msgpck": "from_msgpck", "yaml": "from_yaml"}


class Clean:
    """Clean-state reference outputs, recorded once per process before any call with options."""

    def __init__(self):
        root = build()
        self.out = {fmt: method(root, SER[fmt])() for fmt in SER}
        self.dict = copy.deepcopy(self.out["dict"])
        self.nmaps = [(p, dict(m)) for p, m in mappings(self.dict) if m and p]


def instances(clean: Clean):
    """(name, kind, spec).  Deterministic order, simplest first."""
    out = []
    for fmt in SER:
        for opt in OPTS:
            if kwargs_for(SER[fmt], opt) is not None:
                out.append((f"{SER[fmt]}[{opt}]", "ser", (fmt, opt, None)))
    for fmt in DES:
        for opt in OPTS:
            if kwargs_for(DES[fmt], opt) is not None:
                out.append((f"{DES[fmt]}[{opt}]", "des", (fmt, opt, None)))
    for fmt in SER:
        for opt in ("none", "sort", "skip", "srcidx", "explorer"):
            for tag in TAGS:
                out.append((f"{SER[fmt]}[{opt}]!raise@{tag}", "ser", (fmt, opt, tag)))
    for fmt in DES:
        for opt in ("none", "sort", "srcidx"):
            for mi, (path, _) in enumerate(clean.nmaps):
                for fk in ("unknown-type", "wrong-field", "garbage"):
                    out.append((f"{DES[fmt]}[{opt}]!{fk}@{'/'.join(map(str, path))}", "des", (fmt, opt, (mi, fk))))
        # malformed at depth 0: the whole document is not a node mapping (wrong type tag, a list, a scalar, an empty
        # mapping, or text / bytes that the format's own decoder rejects)
        for opt in ("none", "sort", "skip", "srcidx"):
            for fk in ("unknown-type", "list", "scalar", "empty", "undecodable"):
                out.append((f"{DES[fmt]}[{opt}]!{fk}@<document>", "des", (fmt, opt, ("root", fk))))
    return out


def core_instances(all_inst):
    keep = []
    for name, kind, spec in all_inst:
        fmt, opt, fault = spec
        if fault is None:
            if fmt in ("dict", "json") or opt in ("sort", "srcidx"):
                keep.append((name, kind, spec))
        elif kind == "ser" and fmt in ("dict", "yaml") and fault in ("k0", "k3", "k4") and opt in ("sort", "srcidx", "skip"):
            keep.append((name, kind, spec))
        elif kind == "des" and fault[0] == "root":
            if fmt in ("dict", "yaml") and opt in ("sort", "skip") and fault[1] in ("list", "undecodable"):
                keep.append((name, kind, spec))
        elif kind == "des" and fmt in ("dict", "msgpck") and opt in ("sort", "srcidx") and fault[1] != "wrong-field" and fault[0] in (0, len(TAGS)):
            keep.append((name, kind, spec))
    return keep


def walk_check(x, opt, errs, is_node_level=True):
    """Structural oracle (ii) on a decoded output."""
    if isinstance(x, dict):
        keys = list(x.keys())
        if opt in ("skip", "both"):
            if TYPE_KEY in x:
                errs.add("skip-class: a nested mapping carries __type")
        elif x and set(keys) != {"idx"} and opt != "test":  # the AST-test dialect rewrites origin placeholders; the statement does not cover it
            if TYPE_KEY not in x:
                errs.add("default: a nested mapping lacks __type")
        if opt in ("sort", "both"):
            rest = [k for k in keys if k != TYPE_KEY]
            if (TYPE_KEY in x and keys[0] != TYPE_KEY) or rest != sorted(rest):
                errs.add("sort-keys: a nested mapping is not '__type first, rest sorted'")
        if opt == "srcidx":
            for key in ("source",):
                if key in x and isinstance(x[key], dict) and x[key] and set(x[key]) != {"idx"}:
                    errs.add("index-based sources: a nested source is serialized in full instead of as an index reference")
            if x.get(TYPE_KEY) == "SourceSet" or "sources" in x:
                for sub in x.get("sources", []):
                    if isinstance(sub, dict) and sub and set(sub) != {"idx"}:
                        errs.add("index-based sources: a member of a source set is serialized in full")
        if opt == "explorer" and x.get(TYPE_KEY) == "SN":
            if x.get("_children") != ["c", "items"]:
                errs.add("explorer dialect: a node mapping does not list its child field names")
        for v in x.values():
            walk_check(v, opt, errs)
    elif isinstance(x, list):
        for v in x:
            walk_check(v, opt, errs)


def _has_none(x):
    if isinstance(x, dict):
        return any(v is None or _has_none(v) for v in x.values())
    if isinstance(x, list):
        return any(_has_none(v) for v in x)
    return False


def _options_untouched(rec, case, name):
    """The options mapping belongs to the caller: the call must leave it as it was (callers keep one mapping and pass it to
    many calls)."""
    for passed, before in PASSED_OPTIONS:
        if passed != before:
            rec.violation("C16|options-mapping-modified", case, f"{name}: the options mapping handed in was changed by the call: {before} -> {passed}")
    PASSED_OPTIONS.clear()


def execute(rec, clean, inst, root, seqname):
    name, kind, (fmt, opt, fault) = inst
    rec.count("transitions")
    rec.count("traces")
    case = {"sequence": seqname, "call": name}
    if kind == "ser":
        kw = kwargs_for(SER[fmt], opt)
        ARMED[0] = fault
        try:
            res = call(root, SER[fmt], None, opt)
            raised = None
        except Exception as e:  # noqa: BLE001
            # keep no exception object: its traceback would keep partially built objects alive (DESIGN 1.3)
            res, raised = None, f"{type(e).__name__}: {str(e)[:150]}"
        finally:
            ARMED[0] = None
        _options_untouched(rec, case, name)
        if fault is not None and raised is None:
            rec.violation("C16|harness|fault-not-hit", case, "the injected serialization fault did not fire")
        if fault is None and raised is not None:
            rec.violation(f"C16|serialize-raises|{opt}", case, f"{name} raised {raised}")
        if raised is None and opt == "flagdialect":
            if _has_none(decode(fmt, res)):
                rec.violation(f"C16|per-call|flagdialect|omit-none|{fmt}", case, f"{name}: a dialect with omit_none was given, the output still lists None-valued fields")
        elif raised is None and opt != "dialect":
            errs = set()
            walk_check(decode(fmt, res), opt, errs)
            for e in sorted(errs):
                rec.violation(f"C16|per-call|{opt}|{e.split(':')[0]}|{fmt}", case, f"{name}: {e}")
        rec.outcome(f"ser:{'raised' if raised else 'ok'}")
    else:
        # deserialization descends only when the originals are not registered
        root.detach()
        base_opt = None if opt in ("none", "dialect", "flagdialect") else dict(OPTS[opt])
        payload = SN.as_dict(root, serialization_options=base_opt) if opt != "dialect" else root.as_dict(mashumaro_dialect=IntShift)
        payload = copy.deepcopy(payload)
        encoded = None
        if fault is not None and fault[0] == "root":
            fk = fault[1]
            if fk == "unknown-type":
                payload[TYPE_KEY] = "NoSuchClass"
            elif fk == "list":
                payload = [payload, 1]
            elif fk == "scalar":
                payload = 17
            elif fk == "empty":
                payload = {}
            else:
                encoded = {"dict": "not a mapping", "json": b'{"a": [1', "msgpck": b"\xc1\xc1", "yaml": "a: [1"}[fmt]
        elif fault is not None:
            mi, fk = fault
            maps = [(p, m) for p, m in mappings(payload) if m and p]
            if mi < len(maps):
                path, m = maps[mi]
                if fk == "unknown-type":
                    m[TYPE_KEY] = "NoSuchClass"
                elif fk == "wrong-field":
                    k0 = [k for k in m if k != TYPE_KEY][0]
                    m[k0] = {"unexpected": [1, 2, 3]}
                else:
                    set_at(payload, path, 17)
        kw = kwargs_for(DES[fmt], opt)
        try:
            call(SN, DES[fmt], encode(fmt, payload) if encoded is None and not (fault and fault[0] == "root" and fault[1] == "undecodable") else encoded, opt)
            raised = None
        except Exception as e:  # noqa: BLE001
            raised = type(e).__name__
        _options_untouched(rec, case, name)
        rec.outcome(f"des:{'raised' if raised else 'ok'}")
        # results of deserialization are C04's business; here only the aftermath counts - except for the one option whose
        # effect IS the result: a dialect given to the call must reach every nested object, tagged or not
        if opt == "dialect" and fault is None:
            for variant in ("as-written", "code-points-untagged"):
                rec.count("evaluations")
                pl = copy.deepcopy(root.as_dict(mashumaro_dialect=IntShift))
                if variant == "code-points-untagged":
                    # a nested object whose declared type is exact needs no type tag (hand-edited or foreign documents)
                    for _, m in mappings(pl):
                        if m.get(TYPE_KEY) == "CodePoint":
                            del m[TYPE_KEY]
                try:
                    back = call(SN, DES[fmt], encode(fmt, pl), opt)
                    if not (back == root) or [i.node._Hidden__x for i in back.dfs()] != [i.node._Hidden__x for i in root.dfs()]:
                        rec.violation(f"C16|per-call|dialect|deserialize|{fmt}", dict(case, variant=variant),
                                      f"{name} ({variant}): the dialect did not take effect on every nested object (result != original)")
                    del back
                except Exception as e:  # noqa: BLE001
                    rec.violation(f"C16|per-call|dialect|deserialize|{fmt}", dict(case, variant=variant),
                                  f"{name} ({variant}): raised {type(e).__name__}: {str(e)[:150]}")


def probe(rec, clean, root, seqname, after):
    """Oracle (i): option-less calls behave as in a clean process."""
    case = {"sequence": seqname, "after": after}
    for fmt in SER:
        rec.count("evaluations")
        try:
            got = method(root, SER[fmt])()
        except Exception as e:  # noqa: BLE001
            rec.violation(f"C16|aftermath|{SER[fmt]}-raises", case, f"option-less {SER[fmt]}() raised {type(e).__name__}: {str(e)[:150]}")
            continue
        if got != clean.out[fmt]:
            rec.violation(f"C16|aftermath|{SER[fmt]}-differs", case, f"option-less {SER[fmt]}() differs from the clean-state output after {after}")
    rec.count("evaluations")
    gc.collect()  # partially deserialized nodes of a failed call are garbage; collect cycles so that they are not found by id
    try:
        back = SN.as_obj(copy.deepcopy(clean.dict))
        if not (back == root):
            rec.violation("C16|aftermath|as_obj-differs", case, "option-less as_obj(clean payload) is not == the original tree")
    except Exception as e:  # noqa: BLE001
        rec.violation("C16|aftermath|as_obj-raises", case, f"option-less as_obj raised {type(e).__name__}: {str(e)[:150]}")


def run_sequence(rec, clean, seq):
    root = build()
    seqname = [i[0] for i in seq]
    rec.count("states")
    rec.sample({"sequence": seqname})
    if any(i[2][1] != "none" or i[2][2] is not None for i in seq):
        rec.count("nontrivial")
    for n, inst in enumerate(seq):
        execute(rec, clean, inst, root, seqname)
        probe(rec, clean, root, seqname, inst[0])
        if inst[1] == "des":
            root = build()  # the deserialization call unregistered the originals; continue on a fresh equal world


def plan(tier, seed):
    return [{"k": i, "of": NSHARDS, "tier": tier} for i in range(NSHARDS)]


def run_shard(cfg):
    rec = Rec(cfg)
    clean = Clean()
    allinst = instances(clean)
    core = core_instances(allinst)
    idx = 0

    def maybe(seq):
        nonlocal idx
        idx += 1
        if idx % cfg["of"] == cfg["k"]:
            rec.rank = idx
            run_sequence(rec, clean, seq)

    for a in allinst:
        maybe([a])
    pairs = itertools.product(core, repeat=2) if cfg["tier"] == "quick" else itertools.chain(itertools.product(allinst, core), itertools.product(core, allinst))
    for a, b in pairs:
        maybe([a, b])
    if cfg["tier"] == "thorough":
        small = core[::3]
        for a, b, c in itertools.product(small, repeat=3):
            maybe([a, b, c])
    rec.bound = {"max_sequence_length": 3 if cfg["tier"] == "thorough" else 2, "instances": len(allinst), "core_instances": len(core)}
    rec.extra["instance_count"] = len(allinst)
    return rec.result()


def replay(case, cfg):
    rec = Rec(cfg)
    clean = Clean()
    byname = {i[0]: i for i in instances(clean)}
    seq = [byname[n] for n in case["sequence"]]
    run_sequence(rec, clean, seq)
    return rec.result()["violations"]
