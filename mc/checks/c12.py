"""C12 - child and property accessors return exactly what the class definition dictates.

E1 over programs x configurations x inputs.  Class hierarchies are generated from a spec the harness owns (1-3
levels; per level 0-2 fields of 8 shapes: plain / compare=False / init=False / both / kw_only property, optional
single child, tuple child, union child; the derived level adds fields or overrides the first inherited field with
any shape, kind changes included; field names chosen so that name order differs from declaration order; every 1- and
2-level hierarchy a second time with underscore-prefixed / capitalised / digit-suffixed field names).  Every
hierarchy is defined afresh for every first-use order (the generated accessors install themselves on the class
on first use), instantiated with absent / present / empty / falsy children, and every accessor is compared with
the field list computed from the spec, for all 2^5 skip-flag combinations x sort_keys.
"""
from __future__ import annotations

import dataclasses
import itertools
import sys
import types
from dataclasses import dataclass

from .. import boot  # noqa: F401
from pyoak import serialize as _ser
from pyoak import types as _pytypes
from pyoak.node import NODE_REGISTRY, ASTNode

from ..core import Rec

PID = "C12"
RULE = (
    "hierarchies (each 1- and 2-level one under two naming schemes): all 1-level classes with 0-2 fields over 8 shapes; all 2-level hierarchies base(0-2 fields) x derived(0-1 added "
    "field | override of the first inherited field by each shape) [thorough: derived 0-2 added fields]; 3-level chains with one "
    "field per level over 4 (thorough 8) shapes incl. an override at level 3.  per hierarchy: 3 first-use orders x up to 3 instance "
    "variants per class x {get_properties: 32 flag sets x sort_keys, static get_property_fields: 32 flag sets, to_properties_dict, "
    "get_child_fields, get_child_nodes / _with_field / iter_child_fields x sort_keys, children}.  states = distinct (hierarchy, "
    "first-use order) class definitions; transitions = accessor evaluations compared with the spec; non-trivial = hierarchies "
    "with >= 2 user fields of which at least one is a child and one a property, or with an override"
)
ASSUMPTIONS = ["declaration order = dataclasses.fields() order (id, content_id, origin first; an overriding field keeps its slot)"]
NSHARDS = 16

SHAPES = {
    "P": ("prop", "int = 0", dict(compare=True, init=True)),
    "PC": ("prop", "int = field(default=0, compare=False)", dict(compare=False, init=True)),
    "PI": ("prop", "int = field(default=7, init=False)", dict(compare=True, init=False)),
    "PIC": ("prop", "int = field(default=7, init=False, compare=False)", dict(compare=False, init=False)),
    "PK": ("prop", "int = field(default=0, kw_only=True)", dict(compare=True, init=True)),
    # the dataclass `hash` option has no bearing on comparison: used instead of P / PC in the second naming scheme
    "PH": ("prop", "int = field(default=0, hash=False)", dict(compare=True, init=True)),
    "PCH": ("prop", "int = field(default=0, compare=False, hash=True)", dict(compare=False, init=True)),
    "CO": ("one", "ASTNode | None = None", {}),
    # an optional child WITHOUT a default: it must be passed, and None may be passed (used instead of CO in the second scheme)
    "COK": ("one", "ASTNode | None = field(kw_only=True)", {}),
    # an optional child spelled with None FIRST (used instead of CU in the second scheme; no other annotation of this process
    # is the same union in another order, which typing would consider equal and a cache could answer from)
    "CNF": ("one", "None | CF12 = None", {}),
    "CT": ("tuple", "tuple[ASTNode, ...] = ()", {}),
    "CU": ("one", "CL12 | CF12 | None = None", {}),
}
NAMES = [["m", "c"], ["x", "a"], ["k", "b"]]  # name order differs from declaration order


@dataclass(frozen=True)
class CL12(ASTNode):
    v: int = 0


@dataclass(frozen=True)
class CF12(ASTNode):
    def __len__(self) -> int:
        return 0


def hierarchies(tier):
    """Yield hierarchies: list of levels; a level is a list of (name, shape)."""
    shapes = [x for x in SHAPES if x not in ("PH", "PCH", "COK", "CNF")]
    lvl1 = [[]] + [[(NAMES[0][0], s)] for s in shapes] + [[(NAMES[0][0], s), (NAMES[0][1], t)] for s in shapes for t in shapes]
    # the same two names declared the other way round: other classes of this process have the same field names and kinds
    # in another declaration order
    lvl1 += [[(NAMES[0][1], t), (NAMES[0][0], s)] for s in shapes for t in shapes]
    for l1 in lvl1:
        yield [l1]
    for l1 in lvl1:
        adds = [[]] + [[(NAMES[1][0], s)] for s in shapes]
        if tier == "thorough":
            adds += [[(NAMES[1][0], s), (NAMES[1][1], t)] for s in shapes for t in shapes]
        for l2 in adds:
            yield [l1, l2]
        if l1:
            for s in shapes:  # override the first inherited field, any shape (kind changes included)
                yield [l1, [(l1[0][0], s)]]
                yield [l1, [(NAMES[1][0], "P"), (l1[0][0], s)]]
    s3 = shapes if tier == "thorough" else ["P", "PIC", "CO", "CT"]
    for a, b, c in itertools.product(s3, repeat=3):
        yield [[(NAMES[0][0], a)], [(NAMES[1][0], b)], [(NAMES[2][0], c)]]
        yield [[(NAMES[0][0], a)], [(NAMES[1][0], b)], [(NAMES[0][0], c)]]  # level 3 overrides level 1's field


# a second naming scheme: leading underscore ("hidden"-looking), capitalised (sorts before every lower-case name and before
# the built-in fields), trailing underscore / digit - accessors must not care how a field is spelled
RENAME = {"m": "_m", "c": "Zc", "x": "_x", "a": "a_", "k": "K9", "b": "_b"}


RESHAPE = {"P": "PH", "PC": "PCH", "CO": "COK", "CU": "CNF"}


def renamed(h):
    return [[(RENAME[n], RESHAPE.get(s, s)) for n, s in lv] for lv in h]


_counter = itertools.count()


def define(h, upto=None, mod=None, names=None):
    """Define the classes of levels [len(names) .. upto) in module `mod`; returns (mod, names)."""
    if mod is None:
        mod = types.ModuleType(f"mc_c12_gen_{next(_counter)}")
        mod.__dict__.update(ASTNode=ASTNode, CL12=CL12, CF12=CF12, dataclass=dataclass, field=dataclasses.field)
        sys.modules[mod.__name__] = mod
        names = []
    upto = len(h) if upto is None else upto
    for li in range(len(names), upto):
        cname = f"G{next(_counter)}"
        base = names[-1] if names else "ASTNode"
        body = "\n".join(f"    {n}: {SHAPES[s][1]}" for n, s in h[li]) or "    pass"
        src = f"@dataclass(frozen=True)\nclass {cname}({base}):\n{body}\n"
        exec(compile(src, f"<c12:{cname}>", "exec", dont_inherit=True), mod.__dict__)
        names.append(cname)
    return mod, names


def forget(mod, names):
    for n in names:
        cls = mod.__dict__.get(n)
        _ser.TYPES.pop(n, None)
        for d in (_pytypes._TYPE_TO_ALL_FIELDS, _pytypes._TYPE_TO_CHILD_FIELDS, _pytypes._TYPE_TO_PROPS):
            d.pop(cls, None)
    sys.modules.pop(mod.__name__, None)


def spec_fields(h, level):
    """Expected dataclass field list [(name, shape|builtin)] of the class at `level` (0-based)."""
    out = [("id", "ID"), ("content_id", "CID"), ("origin", "ORIGIN")]
    for lv in h[: level + 1]:
        for n, s in lv:
            for i, (m, _) in enumerate(out):
                if m == n:
                    out[i] = (n, s)
                    break
            else:
                out.append((n, s))
    return out


def instance_variants(fl):
    """kwargs variants for the init child fields; properties keep their defaults (values 0 / 7)."""
    kids = [(n, s) for n, s in fl if s in ("CO", "CT", "CU", "COK", "CNF")]
    yield "defaults", {n: None for n, s in kids if s == "COK"}
    if kids:
        yield "present", {n: (CL12(1), CF12(), CL12(2)) if s == "CT" else (CF12() if s == "CNF" else CL12(3)) for n, s in kids}
        yield "falsy", {n: (CF12(),) if s == "CT" else CF12() for n, s in kids}
        if any(s == "CT" for _, s in kids):
            yield "wide", {n: tuple(CL12(i) if i % 3 else CF12() for i in range(12)) if s == "CT" else (CF12() if s == "CNF" else CL12(3)) for n, s in kids}


def exp_props(fl, flags, sort):
    skip_id, skip_origin, skip_cid, skip_nc, skip_ni = flags
    out = []
    for n, s in fl:
        if s == "ID":
            if not skip_id:
                out.append(n)
        elif s == "CID":
            if not skip_cid:
                out.append(n)
        elif s == "ORIGIN":
            if not skip_origin:
                out.append(n)
        elif SHAPES[s][0] == "prop":
            a = SHAPES[s][2]
            if (not a["compare"] and skip_nc) or (not a["init"] and skip_ni):
                continue
            out.append(n)
    return sorted(out) if sort else out


def check_class(rec, cls, fl, tag, hdesc):
    # which CALL comes first matters as well (the generated accessors install themselves during the first call and hand it
    # over): for every other class the sorted / flagged variants are called before the plain ones
    import zlib

    sorted_first = zlib.crc32(repr((hdesc, list(tag))).encode()) % 2 == 1   # a function of the case, so that a replay repeats it
    sorts = (True, False) if sorted_first else (False, True)
    bools = (False, True) if sorted_first else (True, False)
    case = {"hierarchy": hdesc, "class_level": tag[0], "first_use": tag[1], "sorted_calls_first": sorted_first}
    own = cls.__dataclass_fields__
    child_names = [n for n, s in fl if s in SHAPES and SHAPES[s][0] != "prop"]

    def bad(kind, msg, **kw):
        rec.violation(f"C12|{kind}", dict(case, **kw), msg)

    def ev():
        rec.count("transitions")
        rec.count("traces")
        rec.count("evaluations")

    # static accessors
    ev()
    got = [f.name for f in cls.get_child_fields()]
    if got != child_names or any(f is not own[f.name] for f in cls.get_child_fields()):
        bad("get_child_fields", f"child fields {got}, spec says {child_names}")
    for flags in itertools.product((True, False), repeat=5):
        ev()
        exp = exp_props(fl, flags, False)
        fs = list(cls.get_property_fields(*flags))
        if [f.name for f in fs] != exp or any(f is not own[f.name] for f in fs):
            bad("get_property_fields|" + _flagkind(fl, flags, [f.name for f in fs], exp), f"flags(skip_id,origin,content_id,non_compare,non_init)={flags}: {[f.name for f in fs]}, spec says {exp}", flags=list(flags))
    variants = list(instance_variants(fl))
    if sorted_first:
        variants.reverse()   # the first instance ever queried has children in every child field
    for vname, kw in variants:
        NODE_REGISTRY.clear()
        try:
            inst = cls(**kw)
        except Exception as e:  # noqa: BLE001
            bad("instantiate", f"{type(e).__name__}: {str(e)[:200]}", variant=vname)
            continue
        rec.outcome(f"instance:{vname}")
        for flags in itertools.product(bools, repeat=5):
            for sort in sorts:
                ev()
                exp = exp_props(fl, flags, sort)
                got = list(inst.get_properties(*flags, sort_keys=sort))
                names = [f.name for _, f in got]
                if names != exp:
                    bad("get_properties|" + _flagkind(fl, flags, names, exp), f"flags={flags} sort={sort}: {names}, spec says {exp}", flags=list(flags), sort=sort, variant=vname)
                elif any(f is not own[f.name] or v is not getattr(inst, f.name) for v, f in got):
                    bad("get_properties|value-or-field-object", "yielded value / Field is not the instance's value / the class's own Field", variant=vname)
        ev()
        exp = exp_props(fl, (True, True, True, False, False), False)
        d = inst.to_properties_dict()
        if list(d) != exp or any(d[k] is not getattr(inst, k) for k in d):
            bad("to_properties_dict", f"{list(d)}, spec says {exp}", variant=vname)
        if isinstance(d, dict):   # the mapping belongs to the caller: additions / deletions must not show in a later answer
            ev()
            d["scribbled by the caller"] = 1
            for k in exp[:1]:
                d.pop(k, None)
            for who, again in (("same instance", inst.to_properties_dict()), ("another instance", cls(**kw).to_properties_dict())):
                if list(again) != exp:
                    bad("to_properties_dict|aliased-result", f"after the caller changed an earlier result in place, {who} answers {list(again)}, spec says {exp}", variant=vname)
        for sort in sorts:
            order = sorted(child_names) if sort else child_names
            exp_nodes, exp_wf, exp_iter = [], [], []
            for n in order:
                v = getattr(inst, n)
                exp_iter.append((v, n))
                if isinstance(v, tuple):
                    for i, x in enumerate(v):
                        exp_nodes.append(x)
                        exp_wf.append((x, n, i))
                elif v is not None:
                    exp_nodes.append(v)
                    exp_wf.append((v, n, None))
            ev()
            got = list(inst.get_child_nodes(sort_keys=sort))
            if len(got) != len(exp_nodes) or any(a is not b for a, b in zip(got, exp_nodes)):
                bad("get_child_nodes", f"sort={sort}: {len(got)} nodes, spec says {len(exp_nodes)} (or other order)", variant=vname, sort=sort)
            ev()
            got = list(inst.get_child_nodes_with_field(sort_keys=sort))
            if len(got) != len(exp_wf) or any(g[0] is not e[0] or g[1] is not own[e[1]] or g[2] != e[2] for g, e in zip(got, exp_wf)):
                bad("get_child_nodes_with_field", f"sort={sort}: differs from spec (nodes, own Field objects, indices from 0)", variant=vname, sort=sort)
            ev()
            got = list(inst.iter_child_fields(sort_keys=sort))
            if len(got) != len(exp_iter) or any(g[0] is not e[0] or g[1] is not own[e[1]] for g, e in zip(got, exp_iter)):
                bad("iter_child_fields", f"sort={sort}: differs from spec", variant=vname, sort=sort)
            # re-entrancy: the four accessors (and two calls of one accessor) advanced alternately, also on a second instance
            ev()
            other = cls(**kw)
            gens = [inst.get_child_nodes(sort_keys=sort), inst.get_child_nodes(sort_keys=not sort), inst.get_child_nodes_with_field(sort_keys=sort),
                    inst.iter_child_fields(sort_keys=sort), inst.get_properties(sort_keys=sort), other.get_child_nodes(sort_keys=sort),
                    other.get_properties(sort_keys=sort)]
            alone = [list(inst.get_child_nodes(sort_keys=sort)), list(inst.get_child_nodes(sort_keys=not sort)), list(inst.get_child_nodes_with_field(sort_keys=sort)),
                     list(inst.iter_child_fields(sort_keys=sort)), list(inst.get_properties(sort_keys=sort)), list(other.get_child_nodes(sort_keys=sort)),
                     list(other.get_properties(sort_keys=sort))]
            outs = [[] for _ in gens]
            live = list(zip(gens, outs))
            while live:
                for g, o in list(live):
                    try:
                        o.append(next(g))
                    except StopIteration:
                        live.remove((g, o))

            def same(a, b):
                return len(a) == len(b) and all((x is y) or (isinstance(x, tuple) and len(x) == len(y) and all(p is q or p == q for p, q in zip(x, y))) for x, y in zip(a, b))

            if not all(same(o, a) for o, a in zip(outs, alone)):
                bad("re-entrancy", f"sort={sort}: accessors advanced alternately yield other sequences than each alone", variant=vname, sort=sort)
            del other
            if not sort:
                ev()
                got = inst.children
                if len(got) != len(exp_nodes) or any(a is not b for a, b in zip(got, exp_nodes)):
                    bad("children", "children differs from the child nodes in declaration order", variant=vname)
                # the answer belongs to the caller (work lists are popped / extended in place): what the caller does to it
                # must not show in a later answer, of this instance or of another one
                if isinstance(got, list):
                    ev()
                    got.append(inst)
                    got.reverse()
                    for who, again in (("same instance", inst.children), ("another instance", cls(**kw).children)):
                        if len(again) != len(exp_nodes) or (who == "same instance" and any(a is not b for a, b in zip(again, exp_nodes))):
                            bad("children|aliased-result", f"after the caller changed an earlier result in place, children of {who} has {len(again)} entries, spec says {len(exp_nodes)}", variant=vname)


def _flagkind(fl, flags, got, exp):
    extra = set(got) - set(exp)
    missing = set(exp) - set(got)
    if extra:
        shapes = {s for n, s in fl if n in extra}
        return "extra:" + ",".join(sorted(shapes))
    if missing:
        shapes = {s for n, s in fl if n in missing}
        return "missing:" + ",".join(sorted(shapes))
    return "order"


ORDERS = ["base-first", "derived-first", "base-used-before-derived-is-defined"]


def run_hierarchy(rec, h, order):
    hdesc = [[list(x) for x in lv] for lv in h]
    levels = list(range(len(h)))
    if order == "base-used-before-derived-is-defined":
        mod, names = None, None
        for li in levels:
            mod, names = define(h, li + 1, mod, names)
            check_class(rec, mod.__dict__[names[li]], spec_fields(h, li), (li, order), hdesc)
    else:
        mod, names = define(h)
        seq = levels if order == "base-first" else list(reversed(levels))
        for li in seq:
            check_class(rec, mod.__dict__[names[li]], spec_fields(h, li), (li, order), hdesc)
    forget(mod, names)


@dataclass(frozen=True)
class MixQ:  # plain dataclass mixin contributing a property
    q: int = 5


def run_mixin(rec, base_shape, mro_first, order):
    """Base(ASTNode) with one field of `base_shape`; D(Base, MixQ) or D(MixQ, Base) with an EMPTY body.  The expected
    field list of D follows dataclasses.fields() (stdlib) for the order and the spec for the kinds."""
    mod = types.ModuleType(f"mc_c12_mix_{next(_counter)}")
    mod.__dict__.update(ASTNode=ASTNode, CL12=CL12, CF12=CF12, dataclass=dataclass, field=dataclasses.field, MixQ=MixQ)
    sys.modules[mod.__name__] = mod
    bname, dname = f"GB{next(_counter)}", f"GD{next(_counter)}"
    bases = f"{bname}, MixQ" if mro_first == "node" else f"MixQ, {bname}"
    src_b = f"@dataclass(frozen=True)\nclass {bname}(ASTNode):\n    m: {SHAPES[base_shape][1]}\n"
    src_d = f"@dataclass(frozen=True)\nclass {dname}({bases}):\n    pass\n"
    hdesc = {"mixin": True, "base_shape": base_shape, "mro_first": mro_first}
    shape_of = {"m": base_shape, "q": "P", "id": "ID", "content_id": "CID", "origin": "ORIGIN"}

    def fl(cls):
        return [(f.name, shape_of[f.name]) for f in dataclasses.fields(cls)]

    try:
        exec(compile(src_b, f"<c12:{bname}>", "exec", dont_inherit=True), mod.__dict__)
        if order == "base-used-before-derived-is-defined":
            check_class(rec, mod.__dict__[bname], fl(mod.__dict__[bname]), (0, order), hdesc)
        exec(compile(src_d, f"<c12:{dname}>", "exec", dont_inherit=True), mod.__dict__)
    except TypeError as e:
        rec.count("mixin_layout_not_definable")  # e.g. slot layout conflicts: not pyoak's business
        del e
        forget(mod, [bname, dname])
        return
    B, D = mod.__dict__[bname], mod.__dict__[dname]
    seq = [(1, D), (0, B)] if order == "derived-first" else [(0, B), (1, D)]
    for li, cls in seq:
        if order == "base-used-before-derived-is-defined" and li == 0:
            continue
        check_class(rec, cls, fl(cls), (li, order), hdesc)
    forget(mod, [bname, dname])


def plan(tier, seed):
    return [{"k": i, "of": NSHARDS, "tier": tier} for i in range(NSHARDS)]


def nontrivial(h):
    flat = [s for lv in h for _, s in lv]
    names = [n for lv in h for n, _ in lv]
    kinds = {SHAPES[s][0] == "prop" for s in flat}
    return (len(flat) >= 2 and kinds == {True, False}) or len(set(names)) < len(names)


def run_shard(cfg):
    rec = Rec(cfg)
    idx = 0
    for h in hierarchies(cfg["tier"]):
        mine = idx % cfg["of"] == cfg["k"]
        idx += 1
        if not mine:
            continue
        rec.rank = idx
        rec.sample({"hierarchy": [[list(x) for x in lv] for lv in h]})
        if nontrivial(h):
            rec.count("nontrivial")
        for order in (ORDERS if len(h) > 1 else ORDERS[:1]):
            rec.count("states")
            run_hierarchy(rec, h, order)
        if len(h) <= 2:
            rec.count("states")
            run_hierarchy(rec, renamed(h), ORDERS[0] if len(h) == 1 else ORDERS[idx % len(ORDERS)])
    for shape in SHAPES:
        for mro_first in ("node", "mixin"):
            for order in ORDERS:
                idx += 1
                if idx % cfg["of"] == cfg["k"]:
                    rec.rank = 10**6 + idx
                    rec.count("states")
                    rec.count("nontrivial")
                    run_mixin(rec, shape, mro_first, order)
    rec.bound = {"levels": 3, "fields_per_level": 2, "flag_combinations": 64, "mixin_hierarchies": len(SHAPES) * 2}
    return rec.result()


def replay(case, cfg):
    rec = Rec(cfg)
    if isinstance(case["hierarchy"], dict) and case["hierarchy"].get("mixin"):
        for order in ORDERS:
            run_mixin(rec, case["hierarchy"]["base_shape"], case["hierarchy"]["mro_first"], order)
        return rec.result()["violations"]
    h = [[tuple(x) for x in lv] for lv in case["hierarchy"]]
    for order in ORDERS:
        run_hierarchy(rec, h, order)
    return rec.result()["violations"]
