"""C10 - no operation ever modifies an existing node.

Part 1 (E1): for every class of the pool (slotted and non-slotted, with inherited fields) and every dataclass field
incl. id / content_id / origin, setattr and delattr on an instance raise.
Part 2 (E2): histories of <= H public operations (traversals consumed and abandoned, accessors, Tree queries, xpath
and pattern matching, visiting, transforming with every rule kind incl. raising, duplicate, replace ok / failing,
dataclasses.replace, detach, detach_self, all eight (de)serializers with options, comparison, hashing, is_equal,
rich rendering, repr) on a pool of trees (shared subtree, twins, several origin kinds, a detached tree).  After
EVERY operation every node that existed before it is compared with its snapshot: each dataclass field by identity
(children, origin, tuple elements) and value, id, content_id, hash.  Registry membership is exempt (C03).
"""
from __future__ import annotations

import copy
import dataclasses
import io
import itertools
from dataclasses import dataclass, field

from .. import boot  # noqa: F401
from pyoak.match.pattern import MultiPatternMatcher, NodeMatcher
from pyoak.match.xpath import ASTXpath
from pyoak.node import NODE_REGISTRY, ASTNode
from pyoak.origin import SOURCE_OPTIMIZED_SERIALIZATION_KEY
from pyoak.serialize import SerializationOption
from pyoak.visitor import ASTTransformVisitor, ASTVisitor

from .. import zoo
from ..core import Rec

PID = "C10"
ENGINE = "E2"
TECHNIQUE = "exhaustive enumeration of operation histories over a pool of real trees; frame condition (field-by-field snapshot of every pre-existing node) evaluated after every transition"
RULE = (
    "operations: ~45 kinds x every tree of a 5-tree pool as receiver (binary operations: every ordered pair of trees); histories: "
    "all sequences of <= H operations, every one replayed on a freshly built pool.  states = distinct histories; transitions = "
    "operations executed, each followed by the frame check over all pre-existing nodes; non-trivial = histories that contain a "
    "state-changing or node-producing operation (transform, duplicate, replace, detach, deserialization)"
)
ASSUMPTIONS = ["registry membership of existing nodes is exempt (specified by C03)"]
H = {"quick": 2, "thorough": 3}
NSHARDS = 16


_STAMPS = itertools.count(1)


class Mix:
    pass


@dataclass(frozen=True)
class FL(ASTNode):
    v: int = 0
    nc: int = field(default=0, compare=False)


@dataclass(frozen=True)
class FS(FL):
    extra: str = "x"

    def __bool__(self) -> bool:  # a registered node that is falsy in a boolean context
        return False


@dataclass(frozen=True)
class FV(ASTNode):
    """A model class that validates itself AFTER the base initialisation (late failure of replace / construction)."""

    v: int = 0
    nc: int = field(default=0, compare=False)

    def __post_init__(self) -> None:
        ASTNode.__post_init__(self)
        if self.nc < 0 or self.v < 0:
            raise ValueError("negative value")


@dataclass(frozen=True)
class FM(FL, Mix):  # non-slotted through multiple inheritance
    pass


@dataclass(frozen=True)
class FP(ASTNode):
    one: ASTNode | None = None
    items: tuple[ASTNode, ...] = ()
    tag: int = 0
    # a per-instance value kept in a field that is neither an init argument nor compared (a serial number): every new object
    # gets its own, and no operation may write it (or anything else) back into an object that existed before
    stamp: int = field(default=0, init=False, compare=False)

    def __post_init__(self) -> None:
        ASTNode.__post_init__(self)
        object.__setattr__(self, "stamp", next(_STAMPS))

    def __len__(self) -> int:  # container-like: falsy while `items` is empty (it may still hold `one`)
        return len(self.items)

    def __iter__(self):  # container-like: iterating over the node yields its `items`
        return iter(self.items)


@dataclass(frozen=True)
class FU(ASTNode):  # child field typed as a union of node classes; the value is an instance of a LATER member
    u: FL | FP | None = None
    w: tuple[FS | FL, ...] = ()


def build_pool():
    NODE_REGISTRY.clear()
    shared = FL(5, origin=zoo.O_A23)
    t0 = FP(one=FL(1, origin=zoo.O_A01), items=(FS(2), FP(one=FM(3), items=(FL(4),), origin=zoo.O_MULTI)), origin=zoo.O_B01)
    t1 = FP(one=shared, items=(shared, FL(6)), tag=1)
    t2 = FP(one=FL(1, origin=zoo.O_A01), items=(FS(2), FP(one=FM(3), items=(FL(4),), origin=zoo.O_MULTI)), origin=zoo.O_B01)  # twin of t0
    t3 = FP(items=(FL(7), FS(8, origin=zoo.O_GEN)), tag=3)
    t3.detach()
    t4 = FP(one=FV(9), items=(FV(10, nc=1),))
    t5 = FU(u=FP(one=FL(11), tag=5), w=(FL(12), FS(13)))
    return [t0, t1, t2, t3, t4, t5]


def all_nodes(pool):
    out, seen = [], set()
    for t in pool:
        for n in [t] + [i.node for i in t.dfs()]:
            if id(n) not in seen:
                seen.add(id(n))
                out.append(n)
    return out


def membership(nodes):
    return [NODE_REGISTRY.get(n.id) is n for n in nodes]


MAY_UNREGISTER = ("detach", "detach_self", "replace-ok", "replace-nothing", "replace-child-with-other-tree", "dict-roundtrip-after-detach")


def snapshot(nodes):
    snap = []
    for n in nodes:
        row = [id(n), n.id, n.content_id, hash(n)]
        for f in dataclasses.fields(n):
            v = getattr(n, f.name)
            row.append((f.name, id(v), tuple(id(x) for x in v) if isinstance(v, tuple) else None, v if isinstance(v, (int, str)) else None))
        snap.append(tuple(row))
    return snap


class ReadVisitor(ASTVisitor[int]):
    def generic_visit(self, node):
        return sum(self.visit(c) for c in node.get_child_nodes()) + 1


class Boom(Exception):
    pass


def tv(kind):
    def meth(self, node):
        if kind == "keep":
            return self.generic_visit(node)
        if kind == "rewrite":
            return dataclasses.replace(self.generic_visit(node), v=node.v + 100)
        if kind == "replace":
            return FL(77)
        if kind == "remove":
            return None
        raise Boom()

    return type("TV", (ASTTransformVisitor,), {"visit_FL": meth})()


SOPTS = [None, {SerializationOption.SORT_KEYS: True}, {SOURCE_OPTIMIZED_SERIALIZATION_KEY: True}]


def unary_ops():
    ops = {}
    ops["dfs"] = lambda t: list(t.dfs())
    ops["dfs-bottom-up-filtered"] = lambda t: list(t.dfs(prune=lambda i: isinstance(i.node, FS), filter=lambda i: i.findex != 0, bottom_up=True))
    ops["dfs-abandoned"] = lambda t: next(iter(t.dfs()), None)
    ops["bfs"] = lambda t: list(t.bfs())
    ops["bfs-abandoned"] = lambda t: next(iter(t.bfs(prune=lambda i: False)), None)
    ops["gather"] = lambda t: list(t.gather((FL, FP), exact_type=True))
    ops["children"] = lambda t: t.children
    ops["get_properties"] = lambda t: [list(t.get_properties(*fl, sort_keys=s)) for fl in itertools.product((True, False), repeat=5) for s in (False, True)]
    ops["child-accessors"] = lambda t: (list(t.get_child_nodes()), list(t.get_child_nodes_with_field(sort_keys=True)), list(t.iter_child_fields()), type(t).get_child_fields(), list(type(t).get_property_fields()))
    ops["to_properties_dict"] = lambda t: t.to_properties_dict()

    def tree_q(t):
        tr = t.to_tree()
        for n in [t] + [i.node for i in t.dfs()]:
            tr.get_parent(n), tr.get_parent_info(n), list(tr.get_ancestors(n)), tr.get_depth(n), tr.get_xpath(n), tr.is_root(n), tr.is_in_tree(n)
            tr.get_first_ancestor_of_type(n, FP), tr.is_ancestor(n, t)

    ops["tree-queries"] = tree_q
    ops["xpath"] = lambda t: (list(t.findall("//FL")), t.find("/FP/@items[1]FL"), [ASTXpath("//@items FL").match(t, i.node) for i in t.dfs()])
    ops["pattern"] = lambda t: (NodeMatcher.from_pattern("(FP @one=(FL @v -> x) @items=[* -> rest])")[0].match(t),
                                MultiPatternMatcher([("a", "(FL @v=\"1\")"), ("b", "(* @tag -> t)")]).match(t))
    ops["visit"] = lambda t: ReadVisitor().visit(t)
    for k in ("keep", "rewrite", "replace", "remove", "raise"):
        ops[f"transform-{k}"] = (lambda kk: lambda t: tv(kk).transform(t))(k)
    ops["duplicate"] = lambda t: t.duplicate()
    ops["replace-ok"] = lambda t: t.replace(tag=9) if isinstance(t, FP) else (t.replace(w=()) if isinstance(t, FU) else t.replace(v=9))
    ops["replace-nothing"] = lambda t: t.replace()   # a new node with the same content (and, the original gone, the same id)
    ops["replace-failing"] = lambda t: t.replace(nosuch=1)
    # late failures: the new node is already built (and registered) when the subclass' own __post_init__ raises;
    # nc does not enter the id (the half-built node takes the original's id), v does
    ops["replace-failing-late-same-id"] = lambda t: _first(t, FV).replace(nc=-1)
    ops["replace-failing-late-other-id"] = lambda t: _first(t, FV).replace(v=-1)
    ops["dataclasses.replace-failing-late"] = lambda t: dataclasses.replace(_first(t, FV), nc=-1)
    ops["dataclasses.replace"] = lambda t: dataclasses.replace(t, origin=zoo.O_A23)
    ops["detach"] = lambda t: t.detach()
    ops["detach_self"] = lambda t: t.detach_self()
    for i, so in enumerate(SOPTS):
        ops[f"dict-roundtrip-{i}"] = (lambda s_: lambda t: type(t).as_obj(t.as_dict(serialization_options=s_), serialization_options=s_))(so)
        ops[f"json-roundtrip-{i}"] = (lambda s_: lambda t: type(t).from_json(t.to_json(serialization_options=s_), serialization_options=s_))(so)
        ops[f"msgpck-roundtrip-{i}"] = (lambda s_: lambda t: type(t).from_msgpck(t.to_msgpck(serialization_options=s_), serialization_options=s_))(so)
        ops[f"yaml-roundtrip-{i}"] = (lambda s_: lambda t: type(t).from_yaml(t.to_yaml(serialization_options=s_), serialization_options=s_))(so)

    def unregistered_roundtrip(t):
        d = t.as_dict()
        t.detach()
        return type(t).as_obj(d)

    ops["dict-roundtrip-after-detach"] = unregistered_roundtrip

    # failing loads of documents that mention LIVE nodes at nested levels (an edited copy of a tree that is still in memory):
    # the top-level id is not registered, the failure sits in the last / first child or in a property of the root
    def failing_load(where):
        def run(t):
            d = copy.deepcopy(t.as_dict())
            d["id"] = "edited-" + d["id"]
            kids = [k for k, v in d.items() if isinstance(v, dict) and "id" in v] + [k for k, v in d.items() if isinstance(v, list) and v and isinstance(v[0], dict)]
            if where == "root-property":
                d["tag" if "tag" in d else ("v" if "v" in d else "w")] = {"not": "a value"}
            elif not kids:
                d["nosuch-but-required"] = 1
                d.pop("v", None); d["v"] = "x"
            else:
                k = kids[-1] if where == "last-child" else kids[0]
                if isinstance(d[k], list):
                    d[k][-1 if where == "last-child" else 0] = {"__type": "NoSuchClass", "id": "zzz"}
                else:
                    d[k] = {"__type": "NoSuchClass", "id": "zzz"}
            return type(t).as_obj(d)
        return run

    for where in ("last-child", "first-child", "root-property"):
        ops[f"failing-load-{where}"] = failing_load(where)

    def load_twin_under_next_suffix(t, gap=0):
        """A document written elsewhere: a copy of the first leaf of the tree under an id of its digest that is free right now
        (ids of twins are <digest>, <digest>_1, <digest>_2, ...).  A freshly built twin (kept alive) shows which suffix the
        library hands out at this moment; the document uses the one after it (gap=0) or leaves one free in between (gap=1).
        The loaded node stays alive; nodes created later must steer clear of its id."""
        leaf = next((i.node for i in t.dfs() if not list(i.node.get_child_nodes())), t)
        d = copy.deepcopy(leaf.as_dict())
        probe = dataclasses.replace(leaf)
        KEEP.append(probe)
        base, _, suffix = probe.id.partition("_")
        k = int(suffix or 0) + 1 + gap
        while f"{base}_{k}" in NODE_REGISTRY:
            k += 1
        d["id"] = f"{base}_{k}"
        return type(leaf).as_obj(d)

    ops["load-twin-under-next-suffix"] = load_twin_under_next_suffix
    ops["load-twin-under-later-suffix"] = lambda t: load_twin_under_next_suffix(t, gap=1)   # leaves one suffix free in between
    ops["hash-repr-str"] = lambda t: (hash(t), repr(t), str(t), t == t, t != t)

    def rich_(t):
        from rich.console import Console

        Console(file=io.StringIO(), width=120).print(t)

    ops["rich"] = rich_
    return ops


def _first(t, cls):
    for n in [t] + [i.node for i in t.dfs()]:
        if isinstance(n, cls):
            return n
    raise KeyError("no such node in this tree")


def binary_ops():
    return {
        "eq-ne-is_equal": lambda a, b: (a == b, a != b, a.is_equal(b), b == a, a == 1, a.is_equal(None)),
        "match-in-other-tree": lambda a, b: _safe(lambda: ASTXpath("//FL").match(a, b)),
        "replace-child-with-other-tree": lambda a, b: a.replace(one=b) if isinstance(a, FP) else a.replace(v=b.content_id.__len__()),
    }


def _safe(f):
    try:
        return f()
    except ValueError:
        return None


CHANGING = ("transform", "duplicate", "replace", "detach", "roundtrip")


def op_menu():
    u, b = unary_ops(), binary_ops()
    menu = [(name, (i,)) for name in u for i in range(6)]
    menu += [(name, (i, j)) for name in b for i in range(6) for j in range(6)]
    return u, b, menu


def check_part1(rec):
    pool = build_pool()
    for n in all_nodes(pool):
        for f in dataclasses.fields(n):
            for what in ("setattr", "delattr"):
                rec.count("transitions"); rec.count("traces"); rec.count("evaluations")
                before = getattr(n, f.name)
                try:
                    if what == "setattr":
                        setattr(n, f.name, before)
                    else:
                        delattr(n, f.name)
                    ok = False
                except (AttributeError, TypeError, dataclasses.FrozenInstanceError):
                    ok = True
                if not ok or getattr(n, f.name, None) is not before:
                    rec.violation(f"C10|{what}-allowed", {"class": type(n).__name__, "field": f.name}, f"{what}({type(n).__name__}.{f.name}) did not raise")


KEEP: list = []   # objects an operation wants to stay alive until the end of the history


def run_history(rec, u, b, hist):
    KEEP.clear()
    pool = build_pool()
    case = {"history": [[name, list(args)] for name, args in hist]}
    rec.count("states")
    rec.sample(case)
    if any(any(name.startswith(c) or c in name for c in CHANGING) for name, _ in hist):
        rec.count("nontrivial")
    produced = []  # results are kept alive like a program would keep them
    for step, (name, args) in enumerate(hist):
        nodes = all_nodes(pool) + [n for r in produced if isinstance(r, ASTNode) for n in [r] + [i.node for i in r.dfs()]]
        snap = snapshot(nodes)
        member = membership(nodes)
        rec.count("transitions"); rec.count("traces"); rec.count("evaluations")
        try:
            res = (u[name] if name in u else b[name])(*[pool[i] for i in args])
            produced.append(res)
            rec.outcome(f"{name.split('-')[0]}:ok")
        except (Boom, TypeError, ValueError, KeyError) as e:
            rec.outcome(f"{name.split('-')[0]}:{type(e).__name__}")
        except Exception as e:  # noqa: BLE001
            rec.outcome(f"{name.split('-')[0]}:{type(e).__name__}")
        after = snapshot(nodes)
        now = membership(nodes)
        if now != member:
            # registry membership of an existing node may change only as specified: detach unregisters the receiver's subtree,
            # detach_self and replace the receiver alone; nothing becomes registered; nobody else is touched
            recv = pool[args[0]]
            if name in ("detach", "dict-roundtrip-after-detach"):
                allowed = {id(recv)} | {id(i.node) for i in recv.dfs()}
            elif name in MAY_UNREGISTER:
                allowed = {id(recv)}
            else:
                allowed = set()
            wrong = [type(n).__name__ for n, a, b in zip(nodes, member, now) if a != b and (id(n) not in allowed or b)]
            if wrong:
                rec.violation(f"C10|membership|{name.split('-')[0]}", dict(case, step=step),
                              f"operation {name} changed the registry membership of existing node(s) it has no business with: {wrong[:4]}")
                return
        if after != snap:
            diff = [(type(nodes[i]).__name__, [a[0] for a, c in zip(snap[i][4:], after[i][4:]) if a != c] or "id/content_id/hash") for i in range(len(nodes)) if snap[i] != after[i]]
            rec.violation(f"C10|frame|{name.split('-')[0]}", dict(case, step=step), f"operation {name} modified existing node(s): {diff[:3]}")
            return


def plan(tier, seed):
    return [{"k": i, "of": NSHARDS, "h": H[tier]} for i in range(NSHARDS)]


def run_shard(cfg):
    rec = Rec(cfg)
    # configuration dimension: every third shard runs with runtime type checking on (all inputs are well typed,
    # so nothing may change)
    from pyoak import config as _config

    _config.RUNTIME_TYPE_CHECK = cfg["k"] % 3 == 2
    _config.TRACE_LOGGING = cfg["k"] % 3 == 1   # the other switch a user may turn on; it only adds log records
    rec.extra["trace_logging_in_shard_1_mod_3"] = True
    rec.extra["runtime_type_check_in_shard_2_mod_3"] = True
    rec.extra["first_use"] = zoo.warm_up(cfg["k"], base=lambda: FL(1), derived=lambda: FS(2))
    u, b, menu = op_menu()
    if cfg["k"] == 0:
        check_part1(rec)
    idx = 0
    for ln in range(1, cfg["h"] + 1):
        pool_menu = menu if ln <= 2 else [m for m in menu if m[1][0] in (0, 1) and (len(m[1]) == 1 or m[1][1] in (1, 2))]
        for hist in itertools.product(pool_menu, repeat=ln):
            idx += 1
            if idx % cfg["of"] != cfg["k"]:
                continue
            rec.rank = idx
            run_history(rec, u, b, hist)
    # deeper, on a reduced alphabet: every history of <= 4 registry / (de)serialization operations over the two
    # content-identical twin trees (ids with and without collision suffix)
    names = ("detach", "detach_self", "dict-roundtrip-0", "dict-roundtrip-after-detach", "json-roundtrip-0", "duplicate", "replace-ok")
    for ln, trees in ((3, (0, 2, 5)), (4, (0, 2))):
        red = [(name, (i,)) for name in names for i in trees]
        for hist in itertools.product(red, repeat=ln):
            idx += 1
            if idx % cfg["of"] != cfg["k"]:
                continue
            rec.rank = 10**8 + idx
            run_history(rec, u, b, hist)
    rec.bound = {"max_history_length": cfg["h"], "operation_instances": len(menu), "reduced_alphabet_history_length": 4}
    return rec.result()


def replay(case, cfg):
    rec = Rec(cfg)
    u, b, _ = op_menu()
    run_history(rec, u, b, [(name, tuple(args)) for name, args in case["history"]])
    return rec.result()["violations"]
