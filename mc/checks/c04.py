"""C04 - serialization round-trips trees exactly in dict, JSON, MessagePack and YAML.

E1 x registry states.  (A) every value of per-kind alphabets (45 strings incl. NUL / BOM / YAML-sensitive spellings,
64-bit ints, finite floats, bools, optionals, enums, paths, literals, tuples, a non-comparable property) on a typed leaf;
(B) 14 origin kinds (no origin, code origins on memory / file / text-file / zipped sources, generated, XML, multi-origins
with a common source and with a source set built by merge_origins and directly from a tuple, base Origin with
entire-source / no position / no source); (C) every tree with <= N nodes plus shaped families (one object at two
positions, in-tree twins created in 'wrong' order, twin subtrees) x every antichain of still-alive positions x twin
modes (no outside twin, outside twins alive, outside twins dropped between dump and load); all x 4 formats x {default,
index-based sources}; (D) the same payloads read back in a FRESH process (nothing alive).  Oracle per position: the
(E) the origin families again after every earlier call of a menu (each format x option set on a bystander tree, failing
loads, a caller scribbling over structures handed out by or given to the library).  Oracle per position: the
identical object if the original is alive and registered, else a new registered node with the recorded class, id,
content_id, property values (type(v) is type(orig)) and an == origin of the same class; shared objects stay shared.
"""
from __future__ import annotations

import base64
import copy
import enum
import gc
import itertools
import json
import os
import subprocess
import sys
from dataclasses import dataclass, field
from pathlib import Path
from typing import Literal

from .. import boot  # noqa: F401
from pyoak.node import NODE_REGISTRY, ASTNode
from pyoak.origin import (
    NO_ORIGIN,
    NO_POSITION,
    NO_SOURCE,
    SOURCE_OPTIMIZED_SERIALIZATION_KEY,
    CodeOrigin,
    EntireSourcePosition,
    FileSource,
    GeneratedCodeOrigin,
    MemoryTextSource,
    MultiOrigin,
    Origin,
    Source,
    TextFileSource,
    XMLFileOrigin,
    XMLPath,
    ZippedFileSource,
    get_code_range,
    get_xml_origin,
    merge_origins,
)

from ..core import ROOT, Rec, dump
from ..desc import OPT, PROP, VAR, C, F, Universe

PID = "C04"
RULE = (
    "(A) one-field deviations from the default typed leaf over the value alphabets; (B) one leaf per origin kind; (C) all trees "
    "<= N nodes + shaped trees x all antichain alive-sets x 3 twin modes; each x {dict, json, msgpack, yaml} x {default, "
    "index-based sources}; (D) every payload of (A)-(C) read back in a fresh process; (E) origin families after every earlier call of a 25-entry menu (thorough: every ordered pair).  states = distinct (tree, alive-set, twin "
    "mode) worlds; transitions = round trips executed and compared position by position; non-trivial = round trips in which at "
    "least one position is re-created (not alive) while another is re-used, or that run in a fresh process"
)
ASSUMPTIONS = [
    "values are of the annotated kind (an int in a float field or Any-typed containers are outside 'representable kinds')",
    "no other live node takes over an id between dump and load (the harness creates nothing in between except in the stated twin modes)",
]
N = {"quick": 4, "thorough": 5}
NSHARDS = 16
FORMATS = ["dict", "json", "msgpck", "yaml"]


class Col(enum.Enum):
    R = "r"
    G = "g"


@dataclass(frozen=True)
class SV(ASTNode):
    s: str = ""
    i: int = 0
    f: float = 0.0
    b: bool = False
    o: str | None = None
    e: Col = Col.R
    p: Path = Path("a")
    lit: Literal["x", "y"] = "x"
    ti: tuple[int, ...] = ()
    tsi: tuple[str, int] | None = None
    nc: int = field(default=0, compare=False)
    value: int = 0                                         # named like parameters of the library's own (de)serialization functions
    cls: int = 0
    kw: int = field(default=0, kw_only=True)               # keyword-only
    hid: int = field(default=0, repr=False, hash=False)     # other dataclass options that have no bearing on serialization


@dataclass(frozen=True, slots=True)
class SL(ASTNode):  # a slotted subclass (the dataclass machinery creates such a class twice)
    v: int = 0

    def __bool__(self) -> bool:  # falsy in a boolean context
        return False


@dataclass(frozen=True)
class SP(ASTNode):
    one: ASTNode | None = None
    items: tuple[ASTNode, ...] = ()

    def __len__(self) -> int:  # container-like: falsy in a boolean context while `items` is empty (may still hold other children)
        return len(self.items)

    def __iter__(self):  # container-like: iterating over the node yields its `items`
        return iter(self.items)


@dataclass(frozen=True)
class SU(ASTNode):  # child fields typed as a UNION of node classes (the serializer dispatches through the first member)
    u: SV | SL | SP | None = None
    w: tuple[SV | SL, ...] = ()


CLASSES = {"SV": SV, "SL": SL, "SP": SP, "SU": SU}
U = Universe("c04", [C("SL", SL, [F("v", PROP, alphabet=(0, 1))]), C("SP", SP, [F("one", OPT), F("items", VAR, maxlen=3)])])

STRINGS = ["", "a", "ä€𝄞", "\x00", "a\x00b", "\x85", "﻿", "﻿a", "'", '"', "\\", "\\n", "yes", "no", "null", "~", "true", "True", "1", "1e3", "0x10", "0o7",
           ":", "- a", " a", "a ", "\n", "a\nb", "\t", "!!str", "&a", "*a", "2001-01-01", "{a: 1}", "[1]", "#c", "a: b", "? x", "|", ">", "%", "@", "`", ".inf", "=", "<<"]
VALUES = {
    "s": STRINGS,
    "i": [0, 1, -1, 2**31, 2**53 + 1, 2**63 - 1, -(2**63)],
    "f": [0.0, -0.0, 1.5, 0.1, 1e308, 5e-324, 1e16, -2.5],
    "b": [True, False],
    "o": [None, "", "null", "x"],
    "e": [Col.R, Col.G],
    "p": [Path("a"), Path("/abs/x.py"), Path("rel/../y")],
    "lit": ["x", "y"],
    "ti": [(), (1,), (1, 2, 3)],
    "tsi": [None, ("a", 1), ("", -1)],
    "nc": [0, 5],
    "kw": [0, 3],
    "value": [0, 6],
    "cls": [0, 7],
    "hid": [0, 4],
}

MS1 = MemoryTextSource("hello world", source_uri="mem://c04-1")
MS2 = MemoryTextSource("other text", source_uri="mem://c04-2")
FS1 = FileSource(Path("dir/file.bin"))
TF1 = TextFileSource(Path("dir/file.txt"))
ZS1 = ZippedFileSource(Path("dir/arch.zip"), Path("in/zip.txt"))
_R = get_code_range(1, 1, 1, 4, 1, 4)
_R2 = get_code_range(5, 2, 0, 7, 2, 2)


def origin_kinds():
    a, b = CodeOrigin(MS1, _R), CodeOrigin(MS2, _R2)
    return {
        "none": NO_ORIGIN,
        "code-memory": a,
        "code-file": CodeOrigin(FS1, _R),
        "code-textfile": CodeOrigin(TF1, _R2),
        "code-zipped": CodeOrigin(ZS1, _R),
        "generated": GeneratedCodeOrigin(MS2),
        "xml": XMLFileOrigin(FS1, XMLPath("/a/b[2]/@c")),
        "xml-helper": get_xml_origin(TF1, "/root"),
        "multi-common-source": merge_origins(a, CodeOrigin(MS1, _R2)),
        "multi-source-set": merge_origins(a, b, XMLFileOrigin(FS1, XMLPath("/q"))),
        "multi-from-tuple": MultiOrigin(origins=(a, b)),
        # two EQUAL but separately constructed sources (each get_xml_origin call builds its own FileSource)
        "multi-equal-distinct-sources": merge_origins(get_xml_origin(Path("dir/same.xml"), "/a"), get_xml_origin(Path("dir/same.xml"), "/b")),
        "base-entire-source": Origin(MS1, EntireSourcePosition()),
        "base-no-position": Origin(MS2, NO_POSITION),
        "base-no-source": Origin(NO_SOURCE, XMLPath("/only/position")),
        "base-nothing": Origin(NO_SOURCE, NO_POSITION),   # a base-class origin that says nothing - still not the NoOrigin singleton
    }


OPTSETS = {"default": None, "srcidx": {SOURCE_OPTIMIZED_SERIALIZATION_KEY: True}}


def dumps(node, fmt, opt):
    so = None if OPTSETS[opt] is None else dict(OPTSETS[opt])
    if fmt == "dict":
        return node.as_dict(serialization_options=so)
    if fmt == "json":
        return node.to_json(serialization_options=so)
    if fmt == "msgpck":
        return node.to_msgpck(serialization_options=so)
    return node.to_yaml(serialization_options=so)


def loads(cls, payload, fmt, opt):
    so = None if OPTSETS[opt] is None else dict(OPTSETS[opt])
    if fmt == "dict":
        return cls.as_obj(payload, serialization_options=so)
    if fmt == "json":
        return cls.from_json(payload, serialization_options=so)
    if fmt == "msgpck":
        return cls.from_msgpck(payload, serialization_options=so)
    return cls.from_yaml(payload, serialization_options=so)


def walk(n, path=()):
    out = [(path, n)]
    if isinstance(n, SU):
        if n.u is not None:
            out += walk(n.u, path + (("u", None),))
        for i, x in enumerate(n.w):
            out += walk(x, path + (("w", i),))
    if isinstance(n, SP):
        if n.one is not None:
            out += walk(n.one, path + (("one", None),))
        for i, x in enumerate(n.items):
            out += walk(x, path + (("items", i),))
    return out


def pval(v):
    return [type(v).__name__, repr(v)]


def expectation(root):
    """Recorded facts per position (no references to nodes): class, id, content_id, property values with types, origin."""
    exp = []
    first_at = {}
    for path, n in walk(root):
        props = {f: pval(getattr(n, f)) for f in VALUES} if isinstance(n, SV) else ({"v": pval(n.v)} if isinstance(n, SL) else {})
        exp.append({"path": [list(s) for s in path], "cls": type(n).__name__, "id": n.id, "cid": n.content_id, "props": props,
                    "origin": n.origin, "origin_repr": repr(n.origin), "origin_cls": type(n.origin).__name__,
                    "shared_with": first_at.setdefault(id(n), len(exp))})
    return exp


def node_at(root, path):
    cur = root
    for fn, i in path:
        v = getattr(cur, fn)
        cur = v if i is None else v[i]
    return cur


def compare(rec, case, got_root, exp, alive_objs, fresh=False):
    """alive_objs: {position index: original object} for positions whose original is alive and registered."""
    def bad(kind, msg, **kw):
        rec.violation(f"C04|{kind}", dict(case, **kw), msg)

    got_nodes = []
    for k, e in enumerate(exp):
        path = tuple((s[0], s[1]) for s in e["path"])
        try:
            g = node_at(got_root, path)
        except Exception:  # noqa: BLE001
            bad("shape", f"position {path} missing in the result")
            return
        got_nodes.append(g)
        if g is None or type(g) is not CLASSES.get(e["cls"]):
            bad("class", f"position {path}: {type(g).__module__}.{type(g).__name__} (object {id(type(g))}), expected the class {e['cls']} itself")
            return
        if k in alive_objs:
            if g is not alive_objs[k]:
                bad("alive-not-reused", f"position {path}: original is alive and registered but another object came back", position=list(path))
            continue
        if g.id != e["id"]:
            bad("id", f"position {path}: id {g.id}, serialized {e['id']}")
        if g.content_id != e["cid"]:
            bad("content_id", f"position {path}: content_id {g.content_id}, original {e['cid']}")
        if NODE_REGISTRY.get(g.id) is not g:
            bad("not-registered", f"position {path}: the re-created node is not registered under its id")
        for fn, (tname, rep) in e["props"].items():
            v = getattr(g, fn)
            if type(v).__name__ != tname or repr(v) != rep:
                bad(f"property|{fn}", f"position {path}: {fn} came back as {type(v).__name__} {v!r:.80}, was {tname} {rep:.80}", field=fn, value=rep[:60])
        og = g.origin
        if type(og).__name__ != e["origin_cls"]:
            bad("origin|class", f"position {path}: origin class {type(og).__name__}, was {e['origin_cls']}")
        elif e["origin_cls"] == "NoOrigin":
            if og is not NO_ORIGIN:
                bad("origin|singleton", "NoOrigin did not come back as the singleton")
        elif (repr(og) != e["origin_repr"]) if fresh else (not (og == e["origin"])):
            bad(f"origin|{case.get('origin_kind', 'value')}", f"position {path}: origin {og!r:.150} != original {e['origin_repr']:.150}")
        else:
            for part, single in (("source", NO_SOURCE), ("position", NO_POSITION)):
                if type(getattr(og, part)).__name__ in ("NoSource", "NoPosition") and getattr(og, part) is not single:
                    bad("origin|singleton", f"{part} singleton did not come back as the same object")
    for k, e in enumerate(exp):
        if e["shared_with"] != k and len(got_nodes) == len(exp) and got_nodes[k] is not got_nodes[e["shared_with"]]:
            bad("sharing-lost", "a node that occurred at two positions came back as two objects")


def roundtrip(rec, case, build, hold, twin_mode, fmt, opt, fresh_batch=None, pre=None):
    """build() -> root (fresh world); hold: position indices whose subtree is kept alive."""
    NODE_REGISTRY.clear()
    gc.collect()
    if pre is not None:
        pre()
        NODE_REGISTRY.clear()
        gc.collect()
    twin = build() if twin_mode != "none" else None
    root = build()
    exp = expectation(root)
    cls = type(root)
    nodes = [n for _, n in walk(root)]
    payload = dumps(root, fmt, opt)
    if fresh_batch is not None:
        enc = copy.deepcopy(payload) if fmt == "dict" else base64.b64encode(payload if isinstance(payload, bytes) else payload.encode("utf-8")).decode()
        fresh_batch.append({"case": case, "fmt": fmt, "opt": opt, "cls": cls.__name__, "payload": enc,
                            "exp": [{k: v for k, v in e.items() if k != "origin"} for e in exp]})
    held = [nodes[k] for k in hold]
    alive = {}
    for k in hold:
        for j, (_, n) in enumerate(walk(root)):
            pass
    # positions kept alive: the held nodes and all their descendants
    alive_ids = set()
    for h in held:
        for _, n in walk(h):
            alive_ids.add(id(n))
    alive = {k: n for k, n in enumerate(nodes) if id(n) in alive_ids}
    del root, nodes
    if twin_mode == "twin-dropped":
        twin = None
    gc.collect()
    rec.count("transitions"); rec.count("traces"); rec.count("evaluations")
    if alive and len(alive) < len(exp):
        rec.count("nontrivial")
    payload_before = copy.deepcopy(payload) if fmt == "dict" else payload
    try:
        got = loads(cls, payload, fmt, opt)
    except Exception as e:  # noqa: BLE001
        rec.violation(f"C04|load-raises|{type(e).__name__}", case, f"{fmt}/{opt}: reading back raised {type(e).__name__}: {str(e)[:200]}")
        return
    rec.outcome(f"{fmt}:{'all-alive' if len(alive) == len(exp) else ('none-alive' if not alive else 'partly-alive')}")
    compare(rec, case, got, exp, alive)
    if 0 in alive and not (got == alive[0]):
        rec.violation("C04|not-equal", case, "result != original although the root is alive")
    if fmt == "dict" and payload != payload_before:
        # the document is the caller's: reading it must leave it as it was (it may be read again, stored, compared)
        rec.violation("C04|document-modified", case, "as_obj changed the dictionary it was given")
    if fmt == "dict":
        # the caller owns the payload: scribbling over it after the load must not reach the loaded tree
        _mutate_all(payload)
        compare(rec, dict(case, payload_scribbled_after_load=True), got, exp, alive)
    del got, twin, held, alive


def antichains(d):
    """All antichains of positions (as lists of pre-order indices): sets of pairwise unrelated positions."""
    pos = [p for p, _ in U.positions(d)]
    idx = {p: i for i, p in enumerate(pos)}
    out = [[]]
    for k in range(1, len(pos) + 1):
        for combo in itertools.combinations(pos, k):
            if all(a[: len(b)] != b and b[: len(a)] != a for a, b in itertools.combinations(combo, 2)):
                out.append([idx[p] for p in combo])
    return out


def shaped():
    """(name, build) - hand-shaped worlds that force the shortcuts."""
    def shared():
        x = SL(7)
        return SP(one=x, items=(x, SL(8), x))

    def wrong_order_twins():
        first = SL(3)          # gets the plain id
        second = SL(3)         # gets the suffixed id
        return SP(items=(second, first, SL(4)))

    def twin_subtrees():
        a = SP(one=SL(1), items=(SL(2),))
        b = SP(one=SL(1), items=(SL(2),))
        return SP(one=b, items=(a, SP(items=(SL(1),))))

    def wide():
        return SP(one=SL(0), items=tuple(SL(i % 5) for i in range(12)))     # 12 elements, twins among them (two-digit suffixes)

    def union_fields():
        return SU(u=SL(1), w=(SL(2), SV(s="x"), SL(1)))      # later union members, twins among them

    def union_nested():
        return SP(one=SU(u=SP(one=SL(5)), w=(SL(5),)), items=(SU(u=SV(i=3)),))

    return [("shared-object", shared), ("in-tree-twins-wrong-order", wrong_order_twins), ("twin-subtrees", twin_subtrees), ("wide-tuple", wide),
            ("union-typed-fields", union_fields), ("union-typed-nested", union_nested)]


def plan(tier, seed):
    return [{"k": i, "of": NSHARDS, "n": N[tier], "tier": tier} for i in range(NSHARDS)]


def cases(cfg):
    """(case dict, build, holds list, twin modes)"""
    for fld, vals in VALUES.items():
        for v in vals:
            yield {"family": "value", "field": fld, "value": repr(v)[:40]}, (lambda f=fld, vv=v: SV(**{f: vv})), [[], [0]], ["none"]
    for (f1, v1), (f2, v2) in [(("s", "null"), ("o", None)), (("i", 2**63 - 1), ("f", -0.0)), (("tsi", ("a", 1)), ("ti", (1, 2, 3))), (("nc", 5), ("b", True))]:
        yield {"family": "value", "field": f"{f1}+{f2}", "value": ""}, (lambda: SV(**{f1: v1, f2: v2})), [[], [0]], ["none", "twin-alive", "twin-dropped"]
    for kind in origin_kinds():
        yield {"family": "origin", "origin_kind": kind}, (lambda k=kind: SV(s="o", origin=origin_kinds()[k])), [[], [0]], ["none", "twin-alive"]
        yield {"family": "origin-nested", "origin_kind": kind}, (lambda k=kind: SP(one=SL(1, origin=origin_kinds()[k]), items=(SL(2, origin=origin_kinds()[k]),), origin=origin_kinds()[k])), [[], [1], [0]], ["none"]
    for n in range(1, cfg["n"] + 1):
        for d in U.trees(n):
            yield {"family": "tree", "tree": d}, (lambda dd=d: U.build(dd)), antichains(d), ["none", "twin-alive", "twin-dropped"]
    for name, b in shaped():
        probe = b()
        npos = len(walk(probe))
        del probe
        holds = [[]] + [[k] for k in range(min(npos, 6))] + [[1, 2], [2, 3]] + ([[npos - 1], [npos - 2, npos - 1]] if npos > 6 else [])
        yield {"family": "shaped", "shape": name}, b, holds, ["none", "twin-alive", "twin-dropped"]


def _mutate_all(x):
    """Scribble over every nested mapping / list of a structure the library handed out."""
    if isinstance(x, dict):
        for v in list(x.values()):
            _mutate_all(v)
        x["zz-scribble"] = {"__type": "Scribble", "source": {"x": 1}}
        x.pop("__type", None)
    elif isinstance(x, list):
        for v in x:
            _mutate_all(v)
        x.append("scribble")


def earlier_calls():
    """Menu of calls that may precede a round trip in the same process: every format x every documented option set on a
    bystander tree that has origin-less and code-origin nodes, failing loads, and a caller that scribbles over the
    structures the library handed out or was given.  None of them may influence a later round trip."""
    from pyoak.serialize import TYPE_KEY
    from pyoak.node import AST_SERIALIZE_DIALECT_KEY, ASTSerializationDialects
    from pyoak.serialize import SerializationOption

    def bystander():
        a = CodeOrigin(MS1, _R)
        return SP(one=SL(7), items=(SL(8, origin=a), SP(one=SV(s="q", origin=merge_origins(a, CodeOrigin(MS2, _R2))))), origin=Origin(NO_SOURCE, NO_POSITION))

    optsets = {
        "skip": {SerializationOption.SKIP_CLASS: True}, "sort": {SerializationOption.SORT_KEYS: True},
        "explorer": {AST_SERIALIZE_DIALECT_KEY: ASTSerializationDialects.AST_EXPLORER},
        "test": {AST_SERIALIZE_DIALECT_KEY: ASTSerializationDialects.AST_TEST},
        "srcidx": {SOURCE_OPTIMIZED_SERIALIZATION_KEY: True},
    }
    menu = {}
    for fmt, meth in (("dict", "as_dict"), ("json", "to_json"), ("msgpck", "to_msgpck"), ("yaml", "to_yaml")):
        for on, so in optsets.items():
            menu[f"{meth}[{on}]"] = (lambda m=meth, o=so: getattr(bystander(), m)(serialization_options=dict(o)))

    def scribble_output():
        t = bystander()
        _mutate_all(t.as_dict())
        _mutate_all(NO_ORIGIN.as_dict()) if hasattr(NO_ORIGIN, "as_dict") else None
        _mutate_all(MS1.as_dict())

    def scribble_input():
        t = bystander()
        d = t.as_dict()
        t.detach()
        back = SP.as_obj(d)
        _mutate_all(d)
        del back

    def failing_load(kind):
        def run():
            t = bystander()
            d = t.as_dict()
            t.detach()
            if kind == "missing":
                d["items"][0].pop("v")
                d["items"][0]["v"] = "not an int"
            elif kind == "unknown-type":
                d["one"][TYPE_KEY] = "NoSuchClass"
            else:
                d["origin"] = 17
            try:
                SP.as_obj(d)
            except Exception:  # noqa: BLE001
                pass
        return run

    menu["scribble-over-output"] = scribble_output
    menu["scribble-over-input"] = scribble_input
    for kind in ("missing", "unknown-type", "bad-origin"):
        menu[f"failing-load[{kind}]"] = failing_load(kind)
    return menu


def check_after_earlier_calls(rec, cfg):
    """(E) every origin kind (flat and nested) x 4 formats x {nothing alive, root alive}, each after every earlier call of the
    menu (thorough: after every ordered pair)."""
    menu = earlier_calls()
    names = list(menu)
    seqs = [(n,) for n in names]
    if cfg["tier"] == "thorough":
        seqs += list(itertools.product(names, repeat=2))
    idx = 0
    for seq in seqs:
        for kind in origin_kinds():
            idx += 1
            if idx % cfg["of"] != cfg["k"]:
                continue
            rec.rank = 10**7 + idx

            def pre(seq=seq):
                for n in seq:
                    try:
                        menu[n]()
                    except Exception:  # noqa: BLE001
                        pass   # what the earlier call did or returned is not judged here, only its aftermath

            builds = [("origin", lambda k=kind: SV(s="o", origin=origin_kinds()[k])),
                      ("origin-nested", lambda k=kind: SP(one=SL(1, origin=origin_kinds()[k]), items=(SL(2, origin=origin_kinds()[k]),), origin=origin_kinds()[k]))]
            for fam, b in builds:
                for hold in ([], [0]):
                    rec.count("states")
                    for fmt in FORMATS:
                        c = {"family": fam, "origin_kind": kind, "earlier_calls": list(seq), "alive": hold, "twins": "none", "format": fmt, "options": "default"}
                        roundtrip(rec, c, b, hold, "none", fmt, "default", None, pre=pre)
    rec.extra["earlier_call_menu"] = names


def run_shard(cfg):
    rec = Rec(cfg)
    idx = 0
    fresh_batch = []
    for case, build, holds, twins in cases(cfg):
        idx += 1
        if idx % cfg["of"] != cfg["k"]:
            continue
        rec.rank = idx
        rec.sample(case)
        for hold in holds:
            for twin_mode in twins:
                rec.count("states")
                for fmt in FORMATS:
                    for opt in OPTSETS:
                        if opt == "srcidx" and case["family"] not in ("origin", "origin-nested", "shaped"):
                            continue
                        c = dict(case, alive=hold, twins=twin_mode, format=fmt, options=opt)
                        roundtrip(rec, c, build, hold, twin_mode, fmt, opt, fresh_batch if (not hold and twin_mode == "none") else None)
    # (D) the same payloads in a fresh process
    if fresh_batch:
        run_fresh(rec, cfg, fresh_batch)
    check_after_earlier_calls(rec, cfg)
    rec.bound = {"max_nodes": cfg["n"], "strings": len(STRINGS), "origin_kinds": len(origin_kinds()), "formats": len(FORMATS)}
    return rec.result()


def run_fresh(rec, cfg, batch):
    os.makedirs(cfg["scratch"], exist_ok=True)
    path = os.path.join(cfg["scratch"], "fresh_in.json")
    outp = os.path.join(cfg["scratch"], "fresh_out.json")
    dump(path, {"sources": Source.all_as_dict(), "batch": batch})
    env = dict(os.environ, PYTHONPATH=ROOT, PYTHONDONTWRITEBYTECODE="1", PYTHONHASHSEED=str(7 + int(cfg.get("seed", 0))))
    r = subprocess.run([sys.executable, "-m", "mc.checks.c04", path, outp], env=env, cwd=ROOT, capture_output=True, text=True)
    if r.returncode or not os.path.exists(outp):
        raise RuntimeError(f"fresh-process reader failed: {r.stderr[-1500:]}")
    res = json.load(open(outp))
    rec.c.update(res["counters"])
    for v in res["violations"]:
        rec.violation(v["sig"].replace("C04|", "C04|fresh|"), v["case"], "fresh process: " + v["msg"])
    rec.count("nontrivial", res["counters"].get("transitions", 0))
    rec.outcome("fresh-process", res["counters"].get("transitions", 0))


def fresh_main(inp, outp):
    """Runs in a brand-new interpreter: nothing is alive, the source registry is empty until the serialized sources are loaded."""
    data = json.load(open(inp))
    rec = Rec({})
    cls = CLASSES
    loaded = False
    for item in data["batch"]:
        NODE_REGISTRY.clear()
        fmt, opt = item["fmt"], item["opt"]
        if opt == "srcidx" and not loaded:
            Source.clear_registry()
            try:
                Source.load_serialized_sources(data["sources"])
                loaded = True
            except Exception as e:  # noqa: BLE001
                rec.violation(f"C04|sources-not-loadable|{type(e).__name__}", dict(item["case"], format=fmt, options=opt, fresh_process=True),
                              f"the separately serialized sources (Source.all_as_dict()) cannot be loaded in a fresh process: {type(e).__name__}: {str(e)[:150]}")
                loaded = None
        if opt == "srcidx" and loaded is None:
            continue
        payload = item["payload"]
        if fmt != "dict":
            raw = base64.b64decode(payload)
            payload = raw if fmt == "msgpck" else raw.decode("utf-8")
        rec.count("transitions"); rec.count("traces"); rec.count("evaluations")
        case = dict(item["case"], format=fmt, options=opt, fresh_process=True)
        try:
            got = loads(cls[item["cls"]], payload, fmt, opt)
        except Exception as e:  # noqa: BLE001
            rec.violation(f"C04|load-raises|{type(e).__name__}", case, f"{fmt}/{opt}: reading back raised {type(e).__name__}: {str(e)[:200]}")
            continue
        compare(rec, case, got, item["exp"], {}, fresh=True)
    dump(outp, rec.result())


def replay(case, cfg):
    rec = Rec(cfg)
    cfg = dict(cfg)
    cfg.setdefault("n", 4)
    cfg.setdefault("scratch", os.path.join(ROOT, ".scratch", f"c04-replay-{os.getpid()}"))
    if case.get("earlier_calls") is not None:
        menu = earlier_calls()

        def pre():
            for n in case["earlier_calls"]:
                try:
                    menu[n]()
                except Exception:  # noqa: BLE001
                    pass

        k = case["origin_kind"]
        b = ((lambda: SV(s="o", origin=origin_kinds()[k])) if case["family"] == "origin" else
             (lambda: SP(one=SL(1, origin=origin_kinds()[k]), items=(SL(2, origin=origin_kinds()[k]),), origin=origin_kinds()[k])))
        hold = [int(x) for x in case.get("alive") or []]
        roundtrip(rec, case, b, hold, "none", case["format"], "default", None, pre=pre)
        return rec.result()["violations"]
    want = {k: case.get(k) for k in ("family", "field", "value", "origin_kind", "tree", "shape")}
    for c, build, holds, twins in cases(cfg):
        if {k: c.get(k) for k in want} != want:
            continue
        hold = [int(x) for x in case.get("alive") or []]
        fb = [] if case.get("fresh_process") else None
        for fmt in ([case["format"]] if case.get("format") else FORMATS):
            roundtrip(rec, dict(c, alive=hold, twins=case.get("twins", "none"), format=fmt, options=case.get("options", "default")),
                      build, hold, case.get("twins", "none"), fmt, case.get("options", "default"), fb)
        if fb:
            run_fresh(rec, cfg, fb)
        break
    import shutil

    shutil.rmtree(cfg["scratch"], ignore_errors=True)
    return rec.result()["violations"]


if __name__ == "__main__":
    fresh_main(sys.argv[1], sys.argv[2])
