"""C01 - content_id / is_equal is exactly structural content equality.

E1 x configurations: the same bounded space of trees (all shapes <= N nodes over 10 generated classes, a 25-value
property alphabet incl. bools/ints/None/enums/tuples/frozensets in several insertion orders, and adversarial strings
built from the digest's own separators) is enumerated in several worker processes, each with its own
PYTHONHASHSEED and its own declaration order of the multi-field classes.  Every worker dumps
structural key -> content_id; the parent joins all tables: the partition by content_id must coincide with the
partition by structural key (a group with two keys = collision; a key with two ids = split).  Within a worker,
is_equal is evaluated for all pairs of a closed subset and invariance under origins / non-comparable
properties / registered twins is checked.
"""
from __future__ import annotations

import enum
import itertools
import json
import os
import subprocess
import sys
from typing import Any, NamedTuple  # noqa: F401  (used by generated class source)

from .. import boot  # noqa: F401
from pyoak.node import NODE_REGISTRY, ASTNode  # noqa: F401
from pyoak.origin import NO_ORIGIN

from .. import zoo
from ..core import ROOT, Rec, dump
from ..desc import FIX, ONE, OPT, PROP, VAR, C, F, Universe  # noqa: F401

PID = "C01"
TECHNIQUE = "bounded exhaustive enumeration of trees x configurations (hash seed, field order) in separate processes; partition by content_id joined and compared with the partition by structural key"
RULE = (
    "every worker (hash seed x field-order permutation) enumerates: (a) all trees with < N nodes over the structural "
    "universe with a 2-value property alphabet and all trees with exactly N nodes with a 1-value alphabet, (b) all trees with <= 2 (thorough 3) nodes over the full value alphabet (look-alike scalars, tuples, sets in both insertion orders - also nested in tuples of tuples), "
    "(c) the string-attack class AP(a, b, c) for all strings of <= T tokens from {'1','2'} + the library's separators + "
    "format-derived tokens, child c in {None, leaf}.  states = distinct structural keys; transitions = nodes built and "
    "digested; evaluations = partition memberships + is_equal pairs + invariance probes; non-trivial = distinct keys that "
    "share their class and field names with at least one other enumerated key (so only values/children distinguish them)"
)
ASSUMPTIONS = [
    "A1: BLAKE2b with an 8-byte digest has no accidental collision among the <= 10^6 digest inputs of a run",
    "A3: floats, (1,) vs (True,), (Pos(1, 2),) vs ((1, 2),), same-named enums from different modules are not judged (deep/shallow type reading of values nested in a container is unspecified; the type of the property value itself always counts)",
]
N = {"quick": 4, "thorough": 5}
NV = {"quick": 2, "thorough": 3}
T = {"quick": 2, "thorough": 3}
SEEDS = {"quick": [0, 1], "thorough": [0, 1, 2, 3]}
ORDERS = {"quick": [0, 5], "thorough": [0, 1, 2, 3, 4, 5]}
PERMS = list(itertools.permutations(range(3)))


class AE(enum.Enum):
    A = 1
    B = 2


class AFl(enum.IntFlag):   # flag values without a member name exist: AFl(0), AFl(8), AFl(16)
    R = 1
    W = 2


class Pos(NamedTuple):   # tuple subclasses: equal to the plain tuple of their elements, yet values of another type
    line: int
    col: int


class Size(NamedTuple):
    width: int
    height: int


TUPLE_KINDS = {"tuple": tuple, "Pos": Pos, "Size": Size}

_SRC = '''
@dataclass(frozen=True)
class AV(ASTNode):
    v: Any = 0

@dataclass(frozen=True)
class AW(ASTNode):
    v: Any = 0

@dataclass(frozen=True)
class AS(AV):
    pass

@dataclass(frozen=True)
class AF(ASTNode):
    def __len__(self):
        return 0

@dataclass(frozen=True)
class AO(ASTNode):
    c: ASTNode | None = None

    def __bool__(self) -> bool:  # falsy in a boolean context
        return False

@dataclass(frozen=True)
class AT(ASTNode):
    items: tuple[ASTNode, ...] = ()

@dataclass(frozen=True)
class AM(ASTNode):
{AM}

@dataclass(frozen=True)
class AP(ASTNode):
{AP}

@dataclass(frozen=True)
class AN(ASTNode):
{AN}

@dataclass(frozen=True)
class AD(AO):
    more: tuple[ASTNode, ...] = ()

@dataclass(frozen=True)
class MixLine:  # a plain dataclass mixin that contributes a property
    line: int = 0

@dataclass(frozen=True)
class AX(AV, MixLine):  # empty body, fields come from two bases (the node base is used before this class)
    pass

@dataclass(frozen=True)
class AY(MixLine, AO):  # the same with a child-carrying node base second in the MRO
    pass

@dataclass(frozen=True)
class AB(ASTNode):
    ka: ASTNode | None = None
    kb: ASTNode | None = None
    pa: Any = 0
    pb: Any = 0
'''
_FIELDS = {
    "AM": ["    a: ASTNode | None = None", "    items: tuple[ASTNode, ...] = ()", "    p: Any = 0"],
    "AP": ["    a: str = ''", "    b: str = ''", "    c: ASTNode | None = None"],
    "AN": ["    v: Any = 0", "    nc: Any = field(default=0, compare=False)", "    ni: int = field(default=7, init=False)"],
}

def _order_sensitive_pair():
    """Two frozensets whose elements are incomparable containers, equal as values but iterating in different orders
    (searched on this interpreter; falls back to a fixed pair)."""
    for i in range(40):
        for j in range(i + 1, 40):
            a, b = frozenset({i}), frozenset({j})
            if list(frozenset([a, b])) != list(frozenset([b, a])):
                return frozenset([a, b]), frozenset([b, a])
    return frozenset([frozenset({0}), frozenset({14})]), frozenset([frozenset({14}), frozenset({0})])


_FS_A, _FS_B = _order_sensitive_pair()
VALUES = [_FS_A, _FS_B, frozenset([(1, 2), (2, 1)]), frozenset([(2, 1), (1, 2)]), frozenset([frozenset(), frozenset({1})]),
          0, 1, True, False, None, "0", "1", "", "True", "None", "(1, 2)", AE.A, AE.B, (1, 2), (2, 1), ("1", 2), (1, "2"), (),
          (1, True), (1, 1), (True, 1), (0, False), (0, 0), frozenset([1, 2]), frozenset([2, 1]), frozenset([8, 16, 0]), frozenset([16, 8, 0]), frozenset(), frozenset(["a", "b", "c"]),
          frozenset(["c", "b", "a"]),
          # the same sets one and two tuple levels down (a set is an unordered value wherever it sits)
          (_FS_A,), (_FS_B,), ((_FS_A,),), ((_FS_B,),), (1, (frozenset([8, 16, 0]),)), (1, (frozenset([16, 8, 0]),)),
          ((frozenset(["a", "b", "c"]),),), ((frozenset(["c", "b", "a"]),),),
          AFl(0), AFl(8), AFl(16), AFl.R, AFl.R | AFl.W, (AFl(8),), (AFl(16),),
          # named tuples: as the value of a property their class is the value's type; nested in a container they fall under A3
          Pos(1, 2), Size(1, 2), Pos(2, 1), Pos(_FS_A, 2), Pos(_FS_B, 2), (Pos(1, 2),), (Size(1, 2),), ((1, 2),),
          (Pos(_FS_A, 2),), (Pos(_FS_B, 2),), frozenset([Pos(1, 2)]), frozenset([Size(1, 2), 3])]


def make_universes(order: int):
    ns = {"ASTNode": ASTNode, "Any": Any}
    perm = PERMS[order]
    src = "from __future__ import annotations\nfrom dataclasses import dataclass, field\n" + _SRC.format(
        **{k: "\n".join(v[i] for i in perm) for k, v in _FIELDS.items()})
    mod = type(sys)("mc_c01_gen")
    mod.__dict__.update(ns)
    sys.modules["mc_c01_gen"] = mod
    exec(compile(src, "<c01-generated>", "exec", dont_inherit=True), mod.__dict__)
    g = mod.__dict__

    def specs(vals):
        return [
            C("AV", g["AV"], [F("v", PROP, alphabet=vals)]),
            C("AW", g["AW"], [F("v", PROP, alphabet=vals)]),
            C("AS", g["AS"], [F("v", PROP, alphabet=vals)], bases=("AV",)),
            C("AF", g["AF"], []),
            C("AO", g["AO"], [F("c", OPT)]),
            C("AT", g["AT"], [F("items", VAR, maxlen=3)]),
            C("AM", g["AM"], [F("a", OPT), F("items", VAR, maxlen=2), F("p", PROP, alphabet=vals[:2])]),
            C("AN", g["AN"], [F("v", PROP, alphabet=vals[:2]), F("nc", PROP, alphabet=(0,), compare=False),
                              F("ni", PROP, init=False, default=7)]),
            C("AD", g["AD"], [F("c", OPT), F("more", VAR, maxlen=2)], bases=("AO",)),
            C("AB", g["AB"], [F("ka", OPT), F("kb", OPT), F("pa", PROP, alphabet=vals[:2]), F("pb", PROP, alphabet=vals[:2])]),
            C("AX", g["AX"], [F("v", PROP, alphabet=vals[:2]), F("line", PROP, alphabet=(0, 1))], bases=("AV",)),
            C("AY", g["AY"], [F("line", PROP, alphabet=(0, 1)), F("c", OPT)], bases=("AO",)),
        ]

    US = Universe("c01-struct", specs((0, 1)))
    # odd declaration orders also enumerate the value alphabet backwards: a content_id must not depend on what was built before
    UV = Universe("c01-values", specs(tuple(reversed(VALUES)) if order % 2 else tuple(VALUES)))
    for c in UV.classes.values():  # wide tuples of the 'wide' family are built through this universe
        for f in c.fields:
            if f.name == "v":
                f.alphabet = tuple(f.alphabet) + tuple(x for x in range(2, 13) if x not in f.alphabet)
    UV._memo.clear()
    US.one = Universe("c01-struct-1", specs((0,)))
    return g, US, UV


def khash(text: str) -> str:
    import hashlib

    return hashlib.blake2b(text.encode(), digest_size=10).hexdigest()


def canon(x, shallow=False, inside=False) -> str:
    """Process-independent text of a structural key (frozensets sorted by their canonical text).
    shallow=True blurs the element types of numbers *inside* tuple / frozenset values (A3: whether (1, True) and (1, 1)
    are 'equal values of equal types' is left open; the top-level type always counts)."""
    if isinstance(x, tuple):
        if shallow and len(x) == 2 and isinstance(x[0], str) and (x[0] in TUPLE_KINDS or x[0] == "frozenset") \
                and isinstance(x[1], (tuple, frozenset)):
            # the class of a tuple nested inside a container value is as open as the type of a nested number (A3)
            return "(" + ("tuple" if inside and x[0] in TUPLE_KINDS else x[0]) + "," + canon(x[1], True, True) + ")"
        if shallow and inside and len(x) == 2 and x[0] in ("int", "bool", "float") and isinstance(x[1], (int, float)):
            return f"(num,{int(x[1]) if x[1] == int(x[1]) else x[1]!r})"
        return "(" + ",".join(canon(v, shallow, inside) for v in x) + ")"
    if isinstance(x, frozenset):
        return "{" + ",".join(sorted(canon(v, shallow, inside) for v in x)) + "}"
    if isinstance(x, enum.Enum):
        return f"<{type(x).__name__}.{x.name}:{x.value!r}>"   # flag values may have no name: the value tells them apart
    return repr(x)


def attack_strings(g, ntok: int):
    NODE_REGISTRY.clear()
    leaf_cids = [g["AV"](0).content_id, g["AF"]().content_id]
    # the escape character of the digest format belongs to the alphabet as well
    toks = ["1", "2", ":", "=", "(", ")", "[", "]", "@", "\\", "):b=<class 'str'>(", "):a=<class 'str'>(", "<class 'str'>"]
    toks += [f"):c[-1]={cid}" for cid in leaf_cids] + [f":c[-1]={leaf_cids[0]}"]
    out = {""}
    for k in range(1, ntok + 1):
        for t in itertools.product(toks, repeat=k):
            out.add("".join(t))
    return sorted(out, key=lambda s: (len(s), s))


def plan(tier, seed):
    seeds = list(SEEDS[tier])
    if seed not in seeds:
        seeds[-1] = 1000 + seed  # VERIF_SEED rotates one of the hash seeds
    cfgs = []
    of = 4
    combos = [(hs, od) for hs in seeds for od in ORDERS[tier]]
    if tier == "thorough":  # all orders under the first seed, the two extreme orders under every other seed
        combos = [(hs, od) for hs, od in combos if hs == seeds[0] or od in (0, 5)]
    for hs, od in combos:
        for k in range(of):
            cfgs.append({"env": {"PYTHONHASHSEED": hs}, "order": od, "n": N[tier], "nv": NV[tier], "ntok": T[tier], "pairs_n": 2,
                             "k": k, "of": of, "label": f"hashseed={hs} order={od} part={k}/{of}"})
    return cfgs


def cases(cfg, g, US, UV):
    """Yield (kind, descriptor) for the whole space of this configuration, simplest first."""
    for n in range(1, cfg["n"]):
        for d in US.trees(n):
            yield "struct", d
    for d in US.one.trees(cfg["n"]):  # the largest size with a single property value
        yield "struct", d
    # the full value alphabet: trees of <= 2 nodes are built by EVERY part of a configuration, each in its own order
    # (rotated by the part number, backwards for odd parts), so that a content_id that depends on what was built
    # earlier in the process shows up as a split; larger trees are shared out between the parts as usual
    small = [d for n in range(1, min(2, cfg["nv"]) + 1) for d in UV.trees(n)]
    k, of = cfg.get("k", 0), cfg.get("of", 1)
    rot = (len(small) * k) // max(of, 1)
    hist = small[rot:] + small[:rot]
    if k % 2:
        hist.reverse()
    for d in hist:
        yield "value-all", d
    for n in range(3, cfg["nv"] + 1):
        for d in UV.trees(n):
            yield "value", d
    # wide tuples (>= 10 children, so that two-digit indices occur): a 12-element tuple and every transposition of two
    # of its elements, plus the 11- and 13-element neighbours
    leaves = [("AV", (("v", i),)) for i in range(12)]
    yield "wide", ("AT", (("items", tuple(leaves)),))
    for i in range(12):
        for j in range(i + 1, 12):
            sw = list(leaves)
            sw[i], sw[j] = sw[j], sw[i]
            yield "wide", ("AT", (("items", tuple(sw)),))
    yield "wide", ("AT", (("items", tuple(leaves[:11])),))
    yield "wide", ("AT", (("items", tuple(leaves + [("AV", (("v", 12),))])),))
    yield "wide", ("AT", (("items", tuple(leaves[:10] + [leaves[10], leaves[10]])),))
    strs2 = attack_strings(g, min(2, cfg["ntok"]))
    kids = [None, ("AV", (("v", 0),)), ("AF", ())]
    for a in strs2:  # all pairs of strings of <= 2 tokens
        for b in strs2:
            for c in kids:
                yield "attack", ("AP", (("a", a), ("b", b), ("c", c)))
    if cfg["ntok"] > 2:  # 3-token strings against the 40 shortest strings, on either side
        s2 = set(strs2)
        strs3 = [x for x in attack_strings(g, cfg["ntok"]) if x not in s2]
        head = strs2[:40]
        for a in strs3:
            for b in head:
                for c in kids[:2]:
                    yield "attack", ("AP", (("a", a), ("b", b), ("c", c)))
                    yield "attack", ("AP", (("a", b), ("b", a), ("c", c)))


class _Unprintable:
    def __str__(self):
        raise ValueError("cannot be printed")

    __repr__ = __str__


def _stale_digests(x):
    if isinstance(x, dict):
        if "content_id" in x:
            x["content_id"] = "0badc0de"
        for v in x.values():
            _stale_digests(v)
    elif isinstance(x, (list, tuple)):
        for v in x:
            _stale_digests(v)


def check_crowd(rec, US):
    """Registry contents never influence a content_id - also when ids collide.  With 1- and 2-byte digests the ids of
    different small trees collide all the time: every tree with <= 2 nodes gets the same content_id built alone in an empty
    registry and built while all the others are registered and alive (before it and after it)."""
    from pyoak import config

    trees = [d for n in (1, 2) for d in US.trees(n)]
    saved = config.ID_DIGEST_SIZE
    try:
        for dsize in (1, 2):
            config.ID_DIGEST_SIZE = dsize
            alone = []
            for d in trees:
                NODE_REGISTRY.clear()
                alone.append(US.build(d).content_id)
            for direction in ("forward", "backward"):
                NODE_REGISTRY.clear()
                crowd = []
                order = list(enumerate(trees)) if direction == "forward" else list(reversed(list(enumerate(trees))))
                for i, d in order:
                    rec.count("transitions"); rec.count("traces"); rec.count("evaluations")
                    n = US.build(d)
                    crowd.append(n)
                    if n.content_id != alone[i]:
                        rec.violation("C01|invariance|registry-crowd", {"a": freeze_desc(US, d), "digest_size": dsize, "crowd": direction},
                                      f"content_id of a tree built while {len(crowd) - 1} other trees are registered (digest size {dsize}, colliding ids) differs from "
                                      "the one it gets in an empty registry", expected=alone[i], observed=n.content_id)
                        break
                rec.outcome(f"crowd:{dsize}:{direction}")
                del crowd
    finally:
        config.ID_DIGEST_SIZE = saved
        NODE_REGISTRY.clear()


def _universe_for(d, US, UV, AP_U):
    return AP_U if d[0] == "AP" else UV


def run_shard(cfg):
    rec = Rec(cfg)
    g, US, UV = make_universes(cfg["order"])
    AP_U = Universe("c01-attack", [
        C("AP", g["AP"], [F("a", PROP), F("b", PROP), F("c", OPT)]),
        C("AV", g["AV"], [F("v", PROP)]), C("AF", g["AF"], []),
    ])
    if cfg["k"] == 3 % cfg["of"] and cfg.get("order", 0) == 0:
        check_crowd(rec, US)
    table: dict[str, str] = {}
    shallow_of: dict[str, str] = {}
    held = []
    origin_all_a = lambda p, d: zoo.O_A01  # noqa: E731
    origin_root_b = lambda p, d: zoo.O_B01 if p == () else None  # noqa: E731
    shapes: dict = {}
    idx = 0
    for kind, d in cases(cfg, g, US, UV):
        idx += 1
        rec.rank = idx
        U = _universe_for(d, US, UV, AP_U)
        keep = kind == "struct" and U.size(d) <= cfg.get("pairs_n", 2)
        if idx % cfg["of"] != cfg["k"] and not keep and kind != "value-all":
            continue
        rec.outcome(kind)
        NODE_REGISTRY.clear()
        if idx % 2:
            # every other case is built right after constructions that FAIL part-way (a child that is not a node, a property
            # that cannot be printed): what a failed construction leaves behind must not reach the next node's digest
            for bad in (lambda: g["AB"](ka=g["AV"](1), kb="not a node", pa=1), lambda: g["AT"](items=(g["AV"](2), 3)),
                        lambda: g["AB"](pa=1, pb=_Unprintable()), lambda: g["AO"](c=object())):
                try:
                    bad()
                    rec.count("failed_constructions_that_succeeded")
                except Exception:  # noqa: BLE001
                    rec.count("failed_constructions")
            NODE_REGISTRY.clear()
        node = U.build(d)
        rec.count("transitions")
        rec.count("traces")
        rec.count("evaluations")
        key_ = U.key(d)
        ks = khash(canon(key_))
        cid = node.content_id
        fd = freeze_desc(U, d)
        if ks in table:
            if table[ks] != cid:
                rec.violation("C01|split|same-process", {"a": fd, "b": fd}, "structurally equal trees got different content_ids in one process",
                              expected=table[ks], observed=cid)
        else:
            table[ks] = cid
            sh = khash(canon(key_, shallow=True))
            if sh != ks:
                shallow_of[ks] = sh
            shape = _shape(U, d)
            shapes[shape] = shapes.get(shape, 0) + 1
        rec.sample({"kind": kind, "tree": fd})
        # (iii) invariance: origins everywhere / at the root, a registered twin (ids carry suffixes), the non-comparable property
        if kind != "attack" or idx % 7 == 0:
            for tag, kw in (("origin-all", {"origin": origin_all_a}), ("origin-root", {"origin": origin_root_b}), ("twin", {})):
                twin = U.build(d, **kw)
                rec.count("evaluations")
                if twin.content_id != cid:
                    rec.violation(f"C01|invariance|{tag}", {"a": fd, "variant": tag}, f"content_id moved under {tag}", expected=cid, observed=twin.content_id)
                if tag == "twin" and twin.id == node.id:
                    rec.violation("C01|invariance|twin-id", {"a": fd}, "twin built next to a registered original got the same id")
                del twin
            if d[0] == "AN":
                import dataclasses

                other = dataclasses.replace(node, nc=99)
                rec.count("evaluations")
                if other.content_id != cid or not node.is_equal(other):
                    rec.violation("C01|invariance|non-comparable", {"a": fd}, "a non-comparable property influences content_id / is_equal")
            # a node built by reading a payload whose recorded digests are stale (an edited or foreign document): its
            # content_id is a function of its content, not of what the document claims
            rec.count("evaluations")
            try:
                payload = node.as_dict()
            except Exception:  # noqa: BLE001
                payload = None
                rec.count("not_serializable")
            if payload is not None:
                _stale_digests(payload)
                node.detach()
                try:
                    back = g["ASTNode"].as_obj(payload)
                except Exception:  # noqa: BLE001
                    back = None
                    rec.count("not_deserializable")
                if back is not None and back is not node:
                    if back.content_id != cid or not node.is_equal(back) or not back.is_equal(node):
                        rec.violation("C01|invariance|deserialized-with-stale-digests", {"a": fd, "variant": "deserialized"},
                                      "a node read from a payload with stale content_id entries does not get the content_id of its content", expected=cid, observed=back.content_id)
                    inner = [i.node.content_id for i in back.dfs()]
                    if inner != [i.node.content_id for i in node.dfs()]:
                        rec.violation("C01|invariance|deserialized-with-stale-digests", {"a": fd, "variant": "deserialized"},
                                      "descendants read from a payload with stale content_id entries carry other content_ids than the originals")
                del back
        if keep:
            held.append((d, node, cid, fd))
        if not node.is_equal(node) or node.is_equal(d) or node.is_equal(None) or node.is_equal(cid):
            rec.violation("C01|is_equal|trivial", {"a": fd}, "is_equal(self) must be True and is_equal(non-node) False")
    # (ii) is_equal on all pairs of the closed subset, (iv) stability of the recorded content ids
    keyed = [(canon(US.key(d)), n, c) for d, n, c, _ in held]
    for i, (ka, na, ca) in enumerate(keyed):
        if na.content_id != ca:
            rec.violation("C01|stability", {"a": held[i][3]}, "content_id changed during the node's lifetime")
        if i % cfg["of"] != cfg["k"]:
            continue
        for j, (kb, nb, cb) in enumerate(keyed):
            rec.count("evaluations")
            exp = ka == kb
            if na.is_equal(nb) is not exp:
                rec.rank = i * 10000 + j
                rec.violation("C01|is_equal|pair", {"a": held[i][3], "b": held[j][3]}, f"is_equal gave {not exp}; structural equality is {exp}")
    rec.count("is_equal_pairs", len([i for i in range(len(keyed)) if i % cfg["of"] == cfg["k"]]) * len(keyed))
    path = os.path.join(cfg["scratch"], "table.json")
    dump(path, {"table": table, "shallow": shallow_of, "shapes": {repr(k): v for k, v in shapes.items()}})
    rec.extra["table_path"] = path
    rec.extra["nontrivial_local"] = sum(v for v in shapes.values() if v > 1)
    rec.bound = {"max_nodes_structural": cfg["n"], "max_nodes_full_alphabet": cfg["nv"], "max_tokens": cfg["ntok"]}
    return rec.result()


def _shape(U, d):
    c = U.classes[d[0]]
    return (d[0], tuple(f.name for f in c.fields))


def finalize(cfgs, results, tier, seed):
    """Join all workers' tables: partition by content_id == partition by structural key."""
    by_key: dict[str, tuple] = {}
    by_cid: dict[str, tuple] = {}
    shapes: dict = {}
    splits, colls = [], []
    shallow: dict[str, str] = {}
    unjudged = 0
    for i, r in enumerate(results):
        with open(r["extra"]["table_path"]) as f:
            data = json.load(f)
        shallow.update(data.get("shallow", {}))
        if cfgs[i]["env"]["PYTHONHASHSEED"] == cfgs[0]["env"]["PYTHONHASHSEED"] and cfgs[i]["order"] == cfgs[0]["order"]:
            for k, v in data["shapes"].items():
                shapes[k] = shapes.get(k, 0) + v
        for k, cid in data["table"].items():
            if k not in by_key:
                by_key[k] = (cid, i)
            elif by_key[k][0] != cid:
                splits.append((k, by_key[k], (cid, i)))
            if cid not in by_cid:
                by_cid[cid] = (k, i)
            elif by_cid[cid][0] != k:
                if shallow.get(k, k) == shallow.get(by_cid[cid][0], by_cid[cid][0]):
                    unjudged += 1  # differ only in the types of numbers nested inside a container value (A3)
                else:
                    colls.append((cid, by_cid[cid], (k, i)))
    viols = []
    if splits or colls:
        want = {k for k, _, _ in splits[:50]} | {x[0] for _, x, y in colls[:50]} | {y[0] for _, x, y in colls[:50]}
        wit = find_witnesses(cfgs[0], want)
        for k, (c1, i1), (c2, i2) in splits[:50]:
            if k not in wit:
                continue
            viols.append({"sig": f"C01|split|across-configurations|{_value_kind(wit[k])}", "rank": len(repr(wit[k])),
                          "case": {"a": wit[k], "b": wit[k], "cfg_a": _cfgid(cfgs[i1]), "cfg_b": _cfgid(cfgs[i2])},
                          "msg": f"one structural key has content_ids {c1} ({cfgs[i1]['label']}) and {c2} ({cfgs[i2]['label']})",
                          "expected": c1, "observed": c2, "cfg": cfgs[i1]})
        for cid, (k1, i1), (k2, i2) in colls[:50]:
            if k1 not in wit or k2 not in wit:
                continue
            kind = "string-injection" if wit[k1][0] == "AP" and wit[k2][0] == "AP" else "structure"
            viols.append({"sig": f"C01|collision|{kind}", "rank": len(repr(wit[k1])) + len(repr(wit[k2])),
                          "case": {"a": wit[k1], "b": wit[k2], "cfg_a": _cfgid(cfgs[i1]), "cfg_b": _cfgid(cfgs[i2])},
                          "msg": f"two structurally different trees share content_id {cid}", "cfg": cfgs[i1]})
    best, counts = {}, {}
    for v in viols:
        counts[v["sig"]] = counts.get(v["sig"], 0) + 1
        if v["sig"] not in best or v["rank"] < best[v["sig"]]["rank"]:
            best[v["sig"]] = v
    for sg, v in best.items():
        v["count"] = len(splits) if "split" in sg else len(colls)
    return {
        "counters": {"states": len(by_key), "nontrivial": sum(v for v in shapes.values() if v > 1), "content_id_groups": len(by_cid)},
        "outcomes": {"split": len(splits), "collision": len(colls), "agree": len(by_key) - len(splits)},
        "violations": list(best.values()),
        "extra": {"split_keys": len(splits), "collision_groups": len(colls), "workers_joined": len(results), "a3_unjudged_collisions": unjudged},
    }


def find_witnesses(cfg, want: set):
    """Re-enumerate the space (no nodes built) to recover the descriptors behind key hashes."""
    g, US, UV = make_universes(cfg["order"])
    AP_U = any_universe(g, UV, ("AP",))
    out = {}
    for kind, d in cases(cfg, g, US, UV):
        U = _universe_for(d, US, UV, AP_U)
        h = khash(canon(U.key(d)))
        if h in want and h not in out:
            out[h] = freeze_desc(U, d)
            if len(out) == len(want):
                break
    return out


def _cfgid(cfg):
    return {"hashseed": cfg["env"]["PYTHONHASHSEED"], "order": cfg["order"], "k": cfg.get("k", 0), "of": cfg.get("of", 1),
            "n": cfg.get("n", 4), "nv": cfg.get("nv", 2), "ntok": cfg.get("ntok", 2)}


def _value_kind(d):
    txt = repr(d)
    return "frozenset" if ("frozenset" in txt or "$fs" in txt) else "other"


# ---- replay: recompute content ids of the two descriptors in fresh processes of the recorded configurations ------
def _cid_in_config(d, cfgid, with_history=False):
    """content_id and key of descriptor d in a fresh process of the given configuration; with_history first builds, in
    that configuration's own order, every 'value-all' tree that precedes d (the history the worker had seen)."""
    code = (
        "import sys, json; from mc.checks import c01; from mc.core import detuple;"
        "cfg = json.loads(sys.argv[2]); g, US, UV = c01.make_universes(int(cfg['order']));"
        "d = c01.revive(detuple(json.loads(sys.argv[1])));"
        "U = c01.any_universe(g, UV, d);"
        "c01.build_history(cfg, g, US, UV, d) if cfg.get('with_history') else None;"
        "print(U.build(d).content_id); print(c01.canon(U.key(d)))"
    )
    env = dict(os.environ, PYTHONHASHSEED=str(cfgid["hashseed"]), PYTHONPATH=ROOT, PYTHONDONTWRITEBYTECODE="1")
    r = subprocess.run([sys.executable, "-c", code, json.dumps(d), json.dumps(dict(cfgid, with_history=with_history))], env=env, cwd=ROOT, capture_output=True, text=True)
    if r.returncode:
        raise RuntimeError(r.stderr[-2000:])
    cid, key = r.stdout.strip().split("\n")
    return cid, key


def build_history(cfg, g, US, UV, target):
    keep = []
    for kind, d in cases(cfg, g, US, UV):
        if kind != "value-all":
            continue
        if d == target:
            break
        keep.append(UV.build(d))
    return keep


def any_universe(g, UV, d):
    if d[0] == "AP":
        return Universe("c01-attack", [C("AP", g["AP"], [F("a", PROP), F("b", PROP), F("c", OPT)]),
                                       C("AV", g["AV"], [F("v", PROP)]), C("AF", g["AF"], [])])
    return UV


def freeze_desc(U, d):
    """Descriptor with property values frozen (enums, frozensets, tuple *values*) so that JSON keeps them apart."""
    if d is None:
        return None
    out = []
    for fn, v in d[1]:
        f = U.fspec(d[0], fn)
        if f.kind == PROP:
            out.append([fn, freeze(v)])
        elif f.kind in (VAR, FIX):
            out.append([fn, [freeze_desc(U, x) for x in v]])
        else:
            out.append([fn, freeze_desc(U, v)])
    return [d[0], out]


def freeze(x):
    """JSON-able encoding that keeps enums / frozensets / tuples apart (jsonable() would blur them)."""
    if isinstance(x, AFl):
        return {"$flag": int(x)}
    if isinstance(x, enum.Enum):
        return {"$enum": x.name}
    if isinstance(x, frozenset):
        return {"$fs": [freeze(v) for v in x]}
    if isinstance(x, tuple) and type(x) is not tuple:
        return {"$nt": type(x).__name__, "v": [freeze(v) for v in x]}
    if isinstance(x, tuple):
        return {"$t": [freeze(v) for v in x]}
    if isinstance(x, list):
        return {"$t": [freeze(v) for v in x]}
    return x


def revive(x):
    if isinstance(x, dict):
        if "$flag" in x:
            return AFl(x["$flag"])
        if "$enum" in x:
            return AE[x["$enum"]]
        if "$nt" in x:
            return TUPLE_KINDS[x["$nt"]](*(revive(v) for v in x["v"]))
        if "$fs" in x:
            return frozenset(revive(v) for v in x["$fs"])
        if "$t" in x:
            return tuple(revive(v) for v in x["$t"])
    if isinstance(x, (list, tuple)):
        return tuple(revive(v) for v in x)
    return x


def tojson(x):
    if isinstance(x, tuple):
        return [tojson(v) for v in x]
    if isinstance(x, dict):
        return {k: tojson(v) for k, v in x.items()}
    return x


def replay(case, cfg):
    """Cases recorded by the runner went through jsonable(); descriptors with enums/frozensets are stored frozen."""
    rec = Rec(cfg)
    if case.get("crowd"):
        g, US, UV = make_universes(0)
        check_crowd(rec, US)
        return rec.result()["violations"]
    fa, fb = tojson(case["a"]), tojson(case.get("b", case["a"]))
    a, b = revive(fa), revive(fb)
    ca = case.get("cfg_a") or {"hashseed": (cfg.get("env") or {}).get("PYTHONHASHSEED", 0), "order": cfg.get("order", 0)}
    cb = case.get("cfg_b") or ca
    cid_a, key_a = _cid_in_config(fa, ca)
    cid_b, key_b = _cid_in_config(fb, cb)
    if key_a == key_b and cid_a == cid_b and "cfg_b" in case:
        # not configuration-dependent in isolation: replay each worker's own history before the witness
        cid_a, _ = _cid_in_config(fa, ca, with_history=True)
        cid_b, _ = _cid_in_config(fb, cb, with_history=True)
    if key_a == key_b and cid_a != cid_b:
        kind = _value_kind(a)
        rec.violation(f"C01|split|across-configurations|{kind}", case, "split reproduced")
        rec.violation("C01|split|same-process", case, "split reproduced")
    if key_a != key_b and cid_a == cid_b:
        kind = "string-injection" if a[0] == "AP" and b[0] == "AP" else "structure"
        rec.violation(f"C01|collision|{kind}", case, "collision reproduced")
    # invariance / is_equal cases are re-run in-process
    g, US, UV = make_universes(int(ca["order"]))
    U = any_universe(g, UV, a)
    NODE_REGISTRY.clear()
    na = U.build(a)
    if "variant" in case:
        kw = {"origin-all": {"origin": lambda p, d: zoo.O_A01}, "origin-root": {"origin": lambda p, d: zoo.O_B01 if p == () else None}, "twin": {}}[case["variant"]]
        if U.build(a, **kw).content_id != na.content_id:
            rec.violation(f"C01|invariance|{case['variant']}", case, "reproduced")
    if "b" in case:
        nb = any_universe(g, UV, b).build(b)
        if na.is_equal(nb) is not (key_a == key_b):
            rec.violation("C01|is_equal|pair", case, "reproduced")
    return rec.result()["violations"]
