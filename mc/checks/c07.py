"""C07 - XPath search and XPath match agree with each other and the documented semantics.

E1 over programs x inputs: xpaths are generated from the grammar as step structures (separator / or //, field from
{none, items, child, one, unknown}, index from {none, [], [0], [1], [12]}, class from {none, leaf, sub-leaf, parent,
ASTNode}), rendered to text, and evaluated against (a) six shaped trees including a 13-element tuple, a child stored
in a field literally named `child`, nested parents and a subclass hierarchy and (b) every tree with <= N nodes.
For every (xpath, tree): set(findall(root)) == {n | match(root, n)} == reference DP over ancestor chains; findall
yields no node twice; find is the first of findall; the node.find / node.findall front-ends agree; searches with one
(cached, shared) xpath object advanced alternately or nested give the results of the same searches run in sequence.
"""
from __future__ import annotations

import itertools
from dataclasses import dataclass

from .. import boot  # noqa: F401
from pyoak.match.xpath import ASTXpath
from pyoak.node import NODE_REGISTRY, ASTNode
from pyoak.tree import Tree

from ..core import Rec
from ..desc import OPT, PROP, VAR, C, F, Universe
from ..ref import xpath as RX

PID = "C07"
RULE = (
    "xpaths: all step sequences of length 1..K over the step alphabet (2 separators x fields x indices x classes, steps that "
    "spell '//' excluded), also as relative paths, with '[]' and with blanks between tokens; trees: 6 shaped trees for the "
    "full alphabet, all trees <= N nodes over {XL, XS(XL), XP(one, items, child)} for the reduced alphabet.  states = "
    "distinct (xpath text, tree) pairs; transitions = findall runs + match calls, each compared with the reference; "
    "non-trivial = (xpath, tree) pairs whose reference result is a non-empty proper subset of the tree's nodes"
)
ASSUMPTIONS = ["trees contain no node object twice and all nodes are registered (Tree precondition)"]
NSHARDS = 16


@dataclass(frozen=True)
class XL(ASTNode):
    v: int = 0


@dataclass(frozen=True)
class XS(XL):
    def __bool__(self) -> bool:  # falsy in a boolean context
        return False


@dataclass(frozen=True)
class XP(ASTNode):
    one: ASTNode | None = None
    items: tuple[ASTNode, ...] = ()
    child: ASTNode | None = None
    more: tuple[ASTNode, ...] = ()      # a second tuple field, declared after the first

    def __len__(self) -> int:  # container-like: falsy in a boolean context while `items` is empty (may still hold other children)
        return len(self.items)

    def __iter__(self):  # container-like: iterating over the node yields its `items`
        return iter(self.items)


U = Universe("c07", [
    C("XL", XL, [F("v", PROP, alphabet=(0,))]),
    C("XS", XS, [F("v", PROP, alphabet=(0,))], bases=("XL",)),
    C("XP", XP, [F("one", OPT), F("items", VAR, maxlen=3), F("child", OPT), F("more", VAR, maxlen=2)]),
])

FIELDS_FULL = [None, "items", "child", "one", "more", "nosuch"]
INDICES_FULL = [None, 0, 1, 12]
CLASSES_FULL = [None, "XL", "XS", "XP", "ASTNode"]
FIELDS_RED = [None, "items", "child", "more"]
INDICES_RED = [None, 0, 1]
CLASSES_RED = [None, "XL", "XP"]
FIELDS_MIN = [None, "items"]
INDICES_MIN = [None, 1]
CLASSES_MIN = [None, "XL"]


def L(v=0):
    return ("XL", (("v", v),))


def S():
    return ("XS", (("v", 0),))


def P(one=None, items=(), child=None, more=()):
    return ("XP", (("one", one), ("items", tuple(items)), ("child", child), ("more", tuple(more))))


def shaped_trees():
    wide = P(one=L(), items=[L(), S()] * 6 + [P(items=[L(), L()])], child=S())          # 13 elements, index 12 is a parent
    return [
        L(),
        S(),
        P(one=L(), items=[S(), L()], child=P(child=L()), more=[L(), P(items=[L(), L(), S()], more=[S(), L()])]),
        P(items=[P(items=[P(items=[L(), S()])]), L()], child=P(one=S(), child=P(child=L()))),
        wide,
        P(one=P(one=P(one=L())), items=[P(items=[wide])], child=L()),
    ]


def chains(depth, fields=("one", "items", "child")):
    """All single-path trees root -f1-> P -f2-> ... -> leaf with every field choice at every level."""
    out = []
    for fs in itertools.product(fields, repeat=depth):
        d = L()
        for f in reversed(fs):
            d = P(**{f: [d] if f == "items" else d})
        out.append(d)
    return out


def plan(tier, seed):
    return [{"k": i, "of": NSHARDS, "tier": tier} for i in range(NSHARDS)]


class TreeCase:
    def __init__(self, d, clear=True):
        if clear:
            NODE_REGISTRY.clear()
        self.d = d
        self.index = {}
        self.root = U.build(d, index=self.index)
        self.tree = Tree(self.root)
        self.pos = U.positions(d)
        self.chains = {}
        dmap = dict(self.pos)
        for p, _ in self.pos:
            chain = [(dmap[()][0], None, None)]
            for k in range(1, len(p) + 1):
                chain.append((dmap[p[:k]][0], p[k - 1][0], p[k - 1][1]))
            self.chains[p] = chain


def is_instance(cname, cls):
    return cls == "ASTNode" or U.isinstance(cname, cls)


def check(rec: Rec, tc: TreeCase, steps, text, front_ends=False, other=None):
    rec.count("states")
    case = {"xpath": text, "tree": tc.d}
    rec.sample(case)
    try:
        xp = ASTXpath(text)
    except Exception as e:  # noqa: BLE001
        rec.violation("C07|compile", case, f"well-formed xpath rejected: {type(e).__name__}: {str(e)[:200]}")
        return
    exp = [p for p, _ in tc.pos if RX.matches(steps, tc.chains[p], is_instance)]
    exp_ids = {id(tc.index[p]) for p in exp}
    rec.count("transitions")
    rec.count("traces")
    rec.count("evaluations")
    found = list(xp.findall(tc.root))
    found_ids = [id(n) for n in found]
    if len(set(found_ids)) != len(found_ids):
        rec.violation("C07|findall|duplicates", case, "findall yielded a node twice")
    if 0 < len(exp) < len(tc.pos):
        rec.count("nontrivial")
    rec.outcome(f"hits:{min(len(exp), 5)}")
    if set(found_ids) != exp_ids:
        extra = [_pp(p) for p in tc.index if id(tc.index[p]) in set(found_ids) - exp_ids]
        missing = [_pp(p) for p in exp if id(tc.index[p]) not in set(found_ids)]
        kind = _kind(steps, extra, missing)
        rec.violation(f"C07|findall|{kind}", case, f"findall differs from the documented semantics: extra={extra} missing={missing}",
                      expected=[_pp(p) for p in exp], observed=[_pp(p) for p in tc.index if id(tc.index[p]) in set(found_ids)])
    for p, _ in tc.pos:
        rec.count("transitions")
        rec.count("traces")
        n = tc.index[p]
        m = xp.match(tc.tree, n)
        e = id(n) in exp_ids
        if m is not e:
            kind = _kind(steps, [_pp(p)] if m else [], [] if m else [_pp(p)])
            rec.violation(f"C07|match|{kind}", dict(case, node=_pp(p)), f"match({_pp(p)}) is {m}, documented semantics say {e}")
        if m is not (id(n) in set(found_ids)):
            rec.violation("C07|findall-vs-match", dict(case, node=_pp(p)), f"match is {m} but findall {'yields' if not m else 'omits'} the node")
    first = xp.find(tc.root) if hasattr(xp, "find") else tc.root.find(xp)
    if (first is None) != (not found) or (found and first is not found[0]):
        rec.violation("C07|find", case, "find() is not the first node findall yields")
    if front_ends:
        a = list(tc.root.findall(text))
        b = list(tc.root.findall(xp))
        f1 = tc.root.find(text)
        if [id(x) for x in a] != found_ids or [id(x) for x in b] != found_ids or f1 is not (found[0] if found else None):
            rec.violation("C07|front-end", case, "node.find / node.findall disagree with ASTXpath.findall")
        if xp.match(tc.root, tc.root) is not xp.match(tc.tree, tc.root):
            rec.violation("C07|front-end", case, "match(root, n) differs from match(Tree(root), n)")
        # re-entrancy: compiled xpaths are cached and shared, so two searches with one xpath object may be in progress at
        # once - on the same tree, on another tree, or nested in the loop body of the first
        rec.count("transitions"); rec.count("traces"); rec.count("evaluations")
        abandoned = xp.findall(tc.root)
        next(abandoned, None)
        del abandoned
        oroot = tc.root if other is None else other.root
        oexp = [id(n) for n in xp.findall(oroot)]
        g1, g2, g3 = xp.findall(tc.root), ASTXpath(text).findall(tc.root), xp.findall(oroot)
        outs = [[], [], []]
        live = [(g1, outs[0]), (g2, outs[1]), (g3, outs[2])]
        while live:
            for g, o in list(live):
                x = next(g, None)
                if x is None:
                    live.remove((g, o))
                else:
                    o.append(id(x))
        if outs[0] != found_ids or outs[1] != found_ids or outs[2] != oexp:
            rec.violation("C07|re-entrancy", case, "searches advanced alternately (same xpath object; same and another tree) differ from the same searches run one after the other")
        nested = []
        for n in xp.findall(tc.root):
            nested.append(id(n))
            if xp.match(tc.tree, n) is not True or [id(x) for x in xp.findall(oroot)] != oexp:
                rec.violation("C07|re-entrancy", case, "match / findall inside the loop body of a findall with the same xpath object give other results")
                break
        if nested != found_ids:
            rec.violation("C07|re-entrancy", case, "findall changes its results when the same xpath is used inside its loop body")


def _kind(steps, extra, missing):
    if any(s[2] is not None and s[2] >= 10 for s in steps):
        return "index>=10"
    if steps[0][1] == "child" and "<root>" in extra:
        return "root-field-child"
    return "semantics"


def _pp(p):
    return "/".join(f"{f}[{i}]" if i is not None else f for f, i in p) or "<root>"


def workload(tier):
    """Yield (trees, step-sequence iterator factory, options)."""
    shaped = shaped_trees()
    small_n = 3 if tier == "quick" else 4
    small = [d for n in range(1, small_n + 1) for d in U.trees(n)]
    yield "shaped-1", shaped, lambda: RX.paths(1, FIELDS_FULL, INDICES_FULL, CLASSES_FULL)
    # tuples with 300 and 260 elements: three-digit indices on both sides of 256 (small integers are shared objects in
    # CPython, larger ones are not - an index compared by identity works up to 256)
    huge = [P(items=[L(), S()] * 150, child=P(more=[L()] * 260, items=[S()] * 3))]
    yield "huge-1", huge, lambda: RX.paths(1, [None, "items", "more"], [None, 0, 10, 100, 255, 256, 257, 258, 299], [None, "XL", "XS"])
    yield "huge-2", huge, lambda: RX.paths(2, ["items", "more"], [None, 257], [None, "XL"])
    yield "shaped-2", shaped, lambda: RX.paths(2, FIELDS_FULL, INDICES_FULL, CLASSES_FULL)
    yield "small-1", small, lambda: RX.paths(1, FIELDS_FULL, INDICES_FULL, CLASSES_FULL)
    yield "small-2", small, lambda: RX.paths(2, FIELDS_RED, INDICES_RED, CLASSES_RED)
    # every 4-node chain x every 3-step path over all four field choices: a middle step that fits only deeper than depth 1
    yield "chains-3", chains(3), lambda: RX.paths(3, [None, "one", "items", "child"], [None], CLASSES_RED)
    # the same paths on every 5-node chain: two nested ancestors can fit a middle step, the closer one failing the rest of
    # the path and the farther one satisfying it (match has to backtrack over a mid-path '//')
    yield "chains-4x3", chains(4, ("one", "items")), lambda: RX.paths(3, [None, "one", "items"], [None], CLASSES_RED)
    if tier == "thorough":
        yield "chains-4x3-full", chains(4), lambda: RX.paths(3, [None, "one", "items", "child"], [None], CLASSES_RED)
        yield "chains-4", chains(4), lambda: RX.paths(4, [None, "one", "child"], [None], CLASSES_MIN + ["XP"])
        yield "shaped-3", shaped, lambda: RX.paths(3, FIELDS_RED, INDICES_RED + [12], CLASSES_RED)
        yield "shaped-4", shaped[2:], lambda: RX.paths(4, FIELDS_MIN, INDICES_MIN, CLASSES_MIN + ["XP"])
        yield "small-3", [d for n in range(1, 4) for d in U.trees(n)], lambda: RX.paths(3, FIELDS_RED, [None, 1], CLASSES_RED)
    else:
        yield "shaped-3", shaped[2:6], lambda: RX.paths(3, FIELDS_MIN, INDICES_MIN, CLASSES_MIN + ["XP"])


def variants(steps):
    """Texts of one step sequence: canonical; relative spelling; '[]' for absent indices; blanks between tokens."""
    out = [RX.render(steps)]
    if steps[0][0]:
        out.append(RX.render(steps, first_relative=True))
    noidx = tuple(i for i, s in enumerate(steps) if s[2] is None and (s[1] is not None or s[3] is not None))
    if noidx:
        out.append(RX.render(steps, empty_brackets=noidx[:1]))
    if len(steps) == 1:
        out.append(RX.render(steps, blanks=True))
    return list(dict.fromkeys(out))


def check_deep(rec: Rec):
    """xpath search and match on a single-path tree 1200 levels deep (beyond the interpreter's recursion limit)."""
    NODE_REGISTRY.clear()
    depth = 1200
    x = XL(1)
    nodes = [x]
    for i in range(depth):
        x = XP(one=x) if i % 2 else XP(items=(x,))
        nodes.append(x)
    nodes.reverse()
    root, leaf = nodes[0], nodes[-1]
    case = {"xpath": "deep-chain", "tree": f"chain of depth {depth}"}
    try:
        tree = Tree(root)
        probes = [("//XL", [id(leaf)]), ("/XP/XP", [id(nodes[1])]), ("//XP/@one XL", [id(leaf)] if isinstance(getattr(nodes[-2], "one", None), XL) else []),
                  ("/XP//XP/XP//XL", [id(leaf)]), ("//@items[0]XL", [id(leaf)] if nodes[-2].items else [])]
        for text, exp in probes:
            rec.count("states"); rec.count("transitions"); rec.count("traces"); rec.count("evaluations")
            xp = ASTXpath(text)
            got = [id(n) for n in xp.findall(root)]
            if got != exp:
                rec.violation("C07|deep-chain|findall", dict(case, xpath_text=text), f"findall on a chain of depth {depth}: {len(got)} hits, expected {len(exp)}")
            if xp.match(tree, leaf) is not (id(leaf) in exp) or xp.match(root, nodes[1]) is not (id(nodes[1]) in exp):
                rec.violation("C07|deep-chain|match", dict(case, xpath_text=text), "match on a deep chain differs from the documented semantics")
    except RecursionError:
        rec.violation("C07|deep-chain|recursion", case, f"xpath search on a chain of depth {depth} raised RecursionError")
    rec.outcome("deep-chain")
    NODE_REGISTRY.clear()


ILL_FORMED = ["//NoSuchClass", "NoSuchClass", "/XP//", "XP//@items[x]XL", "//", "/XP/@items[", "/XP//NoSuchClass/XL", "//@items[1]NoSuchClass", "/XP/"]


def check_after_rejected(rec: Rec, cfg, idx0):
    """History dimension: a REJECTED xpath is compiled first (syntax error, unknown class, a path that ends in a separator -
    each leaves the parser at another point), then a well-formed one is compiled for the first time and judged as usual."""
    import pyoak.match.xpath as XM

    NODE_REGISTRY.clear()
    tcs = [TreeCase(d, clear=False) for d in shaped_trees()[2:5]]
    fam = list(RX.paths(1, FIELDS_RED, INDICES_RED, CLASSES_RED)) + list(RX.paths(2, FIELDS_MIN, INDICES_MIN, CLASSES_MIN + ["XP"]))
    idx = idx0
    for ill in ILL_FORMED:
        for steps in fam:
            idx += 1
            if idx % cfg["of"] != cfg["k"]:
                continue
            rec.rank = 5 * 10**7 + idx
            text = RX.render(steps)
            XM._AST_XPATH_CACHE.clear()
            try:
                ASTXpath(ill)
                rec.violation("C07|after-rejected|ill-formed-accepted", {"xpath": ill, "tree": None}, "an ill-formed xpath was accepted")
                continue
            except Exception:  # noqa: BLE001  (which error an ill-formed text raises is C17's business)
                pass
            before = len(rec.viol)
            for tc in tcs:
                check(rec, tc, steps, text)
            if len(rec.viol) > before:
                # say what came first: the same (xpath, tree) pair passes when nothing was rejected before it
                for sig in list(rec.viol)[before:]:
                    rec.viol[sig]["case"]["compiled_after_rejected"] = ill
            rec.outcome("after-rejected")
    return idx


def run_shard(cfg):
    rec = Rec(cfg)
    if cfg["k"] == 9 % cfg["of"]:
        check_deep(rec)
    check_after_rejected(rec, cfg, 0)
    idx = 0
    for label, trees, mk in workload(cfg["tier"]):
        tcs = None
        for steps in mk():
            for vi, text in enumerate(variants(steps)):
                mine = idx % cfg["of"] == cfg["k"]
                idx += 1
                if not mine:
                    continue
                if tcs is None:
                    NODE_REGISTRY.clear()
                    tcs = [TreeCase(d, clear=False) for d in trees]
                    # all trees stay alive and registered: twins across trees only change id suffixes
                rec.rank = idx
                rec.count("xpaths")
                for ti, tc in enumerate(tcs):
                    check(rec, tc, steps, text, front_ends=(vi == 0 and ti < 3), other=tcs[(ti + 1) % len(tcs)])
        rec.outcome(f"family:{label}")
    rec.bound = {"max_steps": 4 if cfg["tier"] == "thorough" else 3, "full_alphabet_steps": 2}
    return rec.result()


def replay(case, cfg):
    """The xpath text is re-parsed by the reference tokenizer below (texts are generated by render())."""
    rec = Rec(cfg)
    if case.get("xpath") == "deep-chain":
        check_deep(rec)
        return rec.result()["violations"]
    if case.get("compiled_after_rejected"):
        import pyoak.match.xpath as XM

        XM._AST_XPATH_CACHE.clear()
        try:
            ASTXpath(case["compiled_after_rejected"])
        except Exception:  # noqa: BLE001
            pass
    steps = parse_rendered(case["xpath"])
    tc = TreeCase(case["tree"])
    check(rec, tc, steps, case["xpath"], front_ends=True)
    return rec.result()["violations"]


def parse_rendered(text):
    """Inverse of RX.render for replay (own tokenizer, no lark)."""
    import re

    t = re.sub(r"\s*([/@\[\]])\s*", r"\1", text.strip())
    if not t.startswith("/"):
        t = "//" + t
    steps = []
    for m in re.finditer(r"(//|/)(?:@([A-Za-z_]\w*))?\s*(?:\[(\d*)\])?\s*([A-Za-z_]\w*)?", t):
        if m.group(0) == "":
            continue
        sep, f, ix, c = m.groups()
        steps.append((sep == "//", f, int(ix) if ix else None, c))
    return tuple(steps)
