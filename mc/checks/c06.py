"""C06 - Tree answers upward queries consistently with the downward structure.

E1: every tree with <= N nodes over 9 classes (no repeated node objects; content-identical twins at different
positions occur naturally and carry ids X / X_1), every node as query argument, every ordered pair for the
binary queries, a separately built content-identical foreign copy for the outside-the-tree cases; all answers
are compared with the path algebra on the descriptor.  Route "subtree": the Tree is built on every inner position of every
tree with <= 4 nodes (thorough: all); the nodes above and beside that position are outside.
"""
from __future__ import annotations

import itertools
import re

from .. import boot  # noqa: F401
from pyoak.tree import Tree

from .. import zoo
from ..core import Rec

PID = "C06"
RULE = (
    "all trees with exactly n nodes, n=1..N, over 9 zoo classes; per tree every node x every query, every ordered pair "
    "(node, other) for is_ancestor / relative get_depth, every class set from {each class present, ASTNode, ZL, ZO, pairs} "
    "x exact/instance for get_first_ancestor_of_type, and a foreign content-identical copy. states = trees; transitions = "
    "query evaluations compared with the reference; non-trivial = trees with >= 3 nodes that contain two content-identical "
    "nodes at different positions (twins) or depth >= 2"
)
ASSUMPTIONS = ["all nodes of the tree are registered and no node object occurs twice (precondition of the property)"]
N = {"quick": 5, "thorough": 5}
NSHARDS = 16
UNIV = ["ZL", "ZS", "ZF", "ZU", "ZO", "ZV", "ZX", "ZM", "ZD"]
STEP = re.compile(r"/@([A-Za-z_][A-Za-z_0-9]*)\[(\d+)\]([A-Za-z_][A-Za-z_0-9]*)")


def plan(tier, seed):
    return [{"n": N[tier], "k": i, "of": NSHARDS} for i in range(NSHARDS)]


def follow_xpath(root, xp):
    """Parse '/@field[index]Class' steps and follow them by plain attribute access.  Returns node or None."""
    steps = STEP.findall(xp)
    if not steps or "".join(f"/@{a}[{b}]{c}" for a, b, c in steps) != xp:
        return None
    if steps[0] != ("root", "0", type(root).__name__):
        return None
    cur = root
    for a, b, c in steps[1:]:
        try:
            v = getattr(cur, a)
            cur = v[int(b)] if isinstance(v, tuple) else (v if int(b) == 0 else None)
        except Exception:  # noqa: BLE001
            return None
        if cur is None or type(cur).__name__ != c:
            return None
    return cur


def check_tree(U, d, rec: Rec, route="direct", at=None):
    zoo.reset_registry()
    index = {}
    root = U.build(d, index=index)
    outside = []
    whole = d
    if route == "subtree":
        # the Tree is built on an inner node of a larger registered tree: everything above and beside it is outside
        full_index, full_root = index, root
        root = full_index[at]
        index = {q[len(at):]: n for q, n in full_index.items() if q[: len(at)] == at}
        outside = [n for q, n in full_index.items() if q[: len(at)] != at]
        d = dict(U.positions(d))[at]
    if route == "duplicate":
        root0 = root
        root = root.duplicate()
        index = {p: zoo_node_at(root, p) for p in index}
        del root0
    pos = U.positions(d)
    desc_at = dict(pos)
    paths = [p for p, _ in pos]
    case = {"tree": whole, "route": route}
    if at is not None:
        case["at"] = [list(x) for x in at]
    rec.count("states")
    rec.sample(case)
    keys = [U.key(dd) for _, dd in pos]
    if len(paths) >= 3 and (len(set(keys)) < len(keys) or max(len(p) for p in paths) >= 2):
        rec.count("nontrivial")
    tr = Tree(root)

    def bad(kind, msg, **kw):
        rec.violation(f"C06|{kind}", dict(case, **kw), msg)

    def ev():
        rec.count("transitions")
        rec.count("traces")
        rec.count("evaluations")

    xps = []
    for p in paths:
        nd = index[p]
        par = None if p == () else index[p[:-1]]
        ev()
        if tr.get_parent(nd) is not par:
            bad("get_parent", "get_parent differs from the node under which it is stored", path=p)
        pi = tr.get_parent_info(nd)
        ev()
        if p == ():
            if tuple(pi) != (None, None, None):
                bad("get_parent_info", "root parent info must be (None, None, None)", path=p)
        elif not (pi[0] is par and pi[1].name == p[-1][0] and pi[2] == p[-1][1]):
            bad("get_parent_info", f"parent info {getattr(pi[1], 'name', None)}[{pi[2]}] differs from actual position", path=p)
        anc = [index[p[:k]] for k in range(len(p) - 1, -1, -1)]
        ev()
        got = list(tr.get_ancestors(nd))
        if len(got) != len(anc) or any(a is not b for a, b in zip(got, anc)):
            bad("get_ancestors", "ancestors are not the parent chain up to the root", path=p)
        ev()
        rec.outcome(f"depth:{len(p)}")
        if tr.get_depth(nd) != len(p):
            bad("get_depth", f"depth {tr.get_depth(nd)} != path length {len(p)}", path=p)
        ev()
        if tr.is_root(nd) is not (p == ()) or tr.is_in_tree(nd) is not True:
            bad("is_root/is_in_tree", "is_root / is_in_tree wrong for a member", path=p)
        ev()
        xp = tr.get_xpath(nd)
        xps.append(xp)
        if follow_xpath(root, xp) is not nd:
            bad("get_xpath", f"following {xp!r} from the root does not reach the node", path=p)
        for q in paths:
            other = index[q]
            expa = len(q) < len(p) and p[: len(q)] == q
            ev()
            if tr.is_ancestor(nd, other) is not expa:
                bad("is_ancestor", f"is_ancestor gave {not expa}", path=p, other=q)
            ev()
            try:
                r = tr.get_depth(nd, relative_to=other)
                if not expa:
                    bad("get_depth-relative-noraise", f"relative depth to a non-ancestor returned {r}", path=p, other=q)
                elif r != len(p) - len(q):
                    bad("get_depth-relative", f"relative depth {r} != {len(p) - len(q)}", path=p, other=q)
            except ValueError:
                if expa:
                    bad("get_depth-relative-raise", "relative depth to an ancestor raised ValueError", path=p, other=q)
            if expa:  # the rarely used switch only skips the validation; the distance to a real ancestor is the same
                ev()
                r2 = tr.get_depth(nd, relative_to=other, check_ancestor=False)
                if r2 != len(p) - len(q):
                    bad("get_depth-relative-unchecked", f"get_depth(relative_to=ancestor, check_ancestor=False) is {r2}, the chain says {len(p) - len(q)}", path=p, other=q)
                r3 = tr.get_depth(nd, other, False)
                if r3 != r2:
                    bad("get_depth-relative-unchecked", "positional call differs from the keyword call", path=p, other=q)
        # first ancestor of type
        present = list(dict.fromkeys(dd[0] for dd in desc_at.values()))
        csets = [(c,) for c in present] + [("ASTNode",), ("ZL",), ("ZO",)] + [tuple(x) for x in itertools.combinations(present[:3], 2)]
        for cs in dict.fromkeys(csets):
            pycs = tuple(zoo.ASTNode if c == "ASTNode" else getattr(zoo, c) for c in cs)
            for exact in (False, True):
                ev()
                exp = None
                for k in range(len(p) - 1, -1, -1):
                    cn = desc_at[p[:k]][0]
                    if (cn in cs) if exact else any(c == "ASTNode" or U.isinstance(cn, c) for c in cs):
                        exp = index[p[:k]]
                        break
                got = tr.get_first_ancestor_of_type(nd, pycs if len(pycs) > 1 else pycs[0], exact_type=exact)
                if got is not exp:
                    bad("get_first_ancestor_of_type", f"classes={cs} exact={exact}", path=p)
    if len(set(xps)) != len(xps):
        bad("get_xpath-shared", "two nodes share one xpath")

    for on in outside:
        ev()
        if tr.is_in_tree(on) or tr.is_root(on):
            bad("outside-is_in_tree", "a node above / beside the Tree's root is reported as a member")
        for name, q in (("get_parent", tr.get_parent), ("get_xpath", tr.get_xpath), ("get_depth", tr.get_depth)):
            ev()
            try:
                q(on)
                bad(f"outside-{name}-noraise", f"{name}(node above / beside the Tree's root) did not raise KeyError")
            except KeyError:
                pass
        ev()
        if tr.is_ancestor(root, on) or tr.is_ancestor(index[paths[-1]], on):
            bad("outside-is_ancestor", "a node above the Tree's root is reported as an ancestor of a member")
    # foreign content-identical copy, built while the originals are registered
    findex = {}
    froot = U.build(d, index=findex)
    for p in paths:
        fn = findex[p]
        for name, q in (("get_parent", tr.get_parent), ("get_parent_info", tr.get_parent_info), ("get_xpath", tr.get_xpath),
                        ("get_ancestors", lambda x: list(tr.get_ancestors(x))), ("get_depth", tr.get_depth),
                        ("is_ancestor", lambda x: tr.is_ancestor(x, root)),
                        ("get_first_ancestor_of_type", lambda x: tr.get_first_ancestor_of_type(x, zoo.ASTNode))):
            ev()
            try:
                q(fn)
                bad(f"foreign-{name}-noraise", f"{name}(node outside the tree) did not raise KeyError", path=p)
            except KeyError:
                pass
        # both arguments outside the tree (the same foreign node twice included): the query node decides - KeyError
        for q in paths:
            fm = findex[q]
            for name, call in (("is_ancestor", lambda: tr.is_ancestor(fn, fm)), ("get_depth-relative", lambda: tr.get_depth(fn, relative_to=fm)),
                               ("get_depth-relative-unchecked", lambda: tr.get_depth(fn, relative_to=fm, check_ancestor=False))):
                ev()
                try:
                    call()
                    bad(f"foreign-foreign-{name}-noraise", f"{name}(node outside the tree, another node outside the tree) did not raise KeyError", path=p, other=q)
                except KeyError:
                    pass
                except ValueError:
                    bad(f"foreign-foreign-{name}-noraise", f"{name}(node outside the tree, another node outside the tree) raised ValueError, not KeyError", path=p, other=q)
        ev()
        if tr.is_in_tree(fn) or tr.is_root(fn):
            bad("foreign-is_in_tree", "a content-identical node outside the tree is reported as a member", path=p)
        for q in paths:
            ev()
            try:
                r = tr.get_depth(index[q], relative_to=fn)
                bad("get_depth-relative-foreign", f"relative depth to a foreign node returned {r}", path=q, other=p)
            except ValueError:
                pass
            ev()
            if tr.is_ancestor(index[q], fn):
                bad("is_ancestor-foreign", "a foreign (content-identical) node is reported as ancestor of a member", path=q, other=p)
    del froot


def zoo_node_at(root, path):
    from ..desc import node_at

    return node_at(root, path)


def run_shard(cfg):
    rec = Rec(cfg)
    # configuration dimension: every third shard runs with runtime type checking on (all inputs are well typed,
    # so nothing may change)
    from pyoak import config as _config

    _config.RUNTIME_TYPE_CHECK = cfg["k"] % 3 == 2
    _config.TRACE_LOGGING = cfg["k"] % 3 == 1   # the other switch a user may turn on; it only adds log records
    rec.extra["trace_logging_in_shard_1_mod_3"] = True
    rec.extra["runtime_type_check_in_shard_2_mod_3"] = True
    rec.extra['first_use'] = zoo.warm_up(cfg['k'])
    U = zoo.universe(UNIV)
    idx = 0
    from .c05 import big_trees, huge_trees

    UB = zoo.universe(UNIV + ["ZN", "ZJ"])
    for j, d in enumerate(big_trees() + huge_trees()):
        if j % cfg["of"] == cfg["k"]:
            rec.rank = 10**9 + j
            rec.count("big_trees")
            check_tree(UB, d, rec)
    for n in range(1, cfg["n"] + 1):
        for d in U.trees(n):
            mine = idx % cfg["of"] == cfg["k"]
            idx += 1
            if not mine:
                continue
            rec.rank = idx
            check_tree(U, d, rec)
            if cfg.get("tier") == "thorough":
                check_tree(U, d, rec, route="duplicate")
            if n <= (4 if cfg.get("tier") != "thorough" else cfg["n"]):
                for q, _ in U.positions(d)[1:]:
                    check_tree(U, d, rec, route="subtree", at=q)
    rec.bound = {"max_nodes": cfg["n"]}
    return rec.result()


def replay(case, cfg):
    rec = Rec(cfg)
    at = tuple((f, i) for f, i in case["at"]) if case.get("at") is not None else None
    check_tree(zoo.universe(UNIV + ["ZN", "ZJ"]), case["tree"], rec, route=case.get("route", "direct"), at=at)
    return rec.result()["violations"]
