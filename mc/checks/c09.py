"""C09 - visitor dispatch and transformation follow the rules and keep untouched parts.

E1 over programs x inputs.  Dispatch: hierarchy VA <- VB <- VC, VD(VA, Mixin), VE; every subset of
{visit_VA, visit_VB, visit_VC, visit_VD, visit_Mixin, visit_ASTNode} as the visitor's method set x strict; expected
target computed from the class's MRO.  validate=True: every (method name, annotation) pair, annotation as object
and as string.  Transformation: every tree <= N nodes over leaf / sub-leaf / parent(optional single + tuple) /
sub-parent x all 8^4 rule sets (per class: no method, keep, rewrite property, replace by fresh node, remove, raise, return an
equal-but-distinct copy, rewrite a property that is excluded from comparison)
x strict; the result is compared with a reference rewriting that tracks identity (same object / new node / removed
/ raises); the input tree is snapshotted before and compared after, also when the visitor raises.
"""
from __future__ import annotations

import dataclasses
import itertools
from dataclasses import dataclass

from .. import boot  # noqa: F401
from pyoak.node import NODE_REGISTRY, ASTNode
from pyoak.visitor import ASTTransformVisitor, ASTVisitor

from ..core import Rec
from ..desc import OPT, PROP, VAR, C, F, Universe

PID = "C09"
RULE = (
    "dispatch: 64 method subsets x strict x 5 node classes (+ validate: all name/annotation pairs). transformation: all trees "
    "with <= N nodes (lexicographic) x 4096 rule sets x strict.  states = distinct (tree, rule set, strict) cases; transitions = "
    "transform / visit executions compared with the reference; non-trivial = transformation cases whose reference result "
    "contains both an unchanged original subtree (returned as the same object) and at least one new node"
)
ASSUMPTIONS = ["visitor methods are deterministic and side-effect free apart from building new nodes"]
N = {"quick": 3, "thorough": 4}
NSHARDS = 16


# ---- dispatch hierarchy --------------------------------------------------------------------------------
class Mixin:
    pass


@dataclass(frozen=True)
class VA(ASTNode):
    pass


@dataclass(frozen=True)
class VB(VA):
    pass


@dataclass(frozen=True)
class VC(VB):
    pass


@dataclass(frozen=True)
class VD(VA, Mixin):
    pass


@dataclass(frozen=True)
class VE(ASTNode):
    pass


_STAMPS = itertools.count(1)


# ---- transformation universe ---------------------------------------------------------------------------
@dataclass(frozen=True)
class TL(ASTNode):
    v: int = 0
    note: int = dataclasses.field(default=0, compare=False)  # not part of the content: nodes differing only here are ==


@dataclass(frozen=True)
class TS(TL):
    def __bool__(self) -> bool:  # falsy in a boolean context
        return False


@dataclass(frozen=True)
class TP(ASTNode):
    one: ASTNode | None = None
    items: tuple[ASTNode, ...] = ()
    tag: int = 0
    note: int = dataclasses.field(default=0, compare=False)

    def __len__(self) -> int:  # container-like: falsy in a boolean context while `items` is empty (may still hold other children)
        return len(self.items)

    def __iter__(self):  # container-like: iterating over the node yields its `items`
        return iter(self.items)

    # a per-instance serial number in a field that is neither an init argument nor compared: the snapshot of the input tree
    # notices if a transformation writes it (or anything else) back into an input node
    stamp: int = dataclasses.field(default=0, init=False, compare=False)

    def __post_init__(self) -> None:
        ASTNode.__post_init__(self)
        object.__setattr__(self, "stamp", next(_STAMPS))


@dataclass(frozen=True)
class TQ(TP):
    pass


@dataclass(frozen=True)
class TW(ASTNode):  # two tuple child fields
    # the two fields are named like parameters of the library's own functions (visit(node), replace(**changes)): a field
    # name handed on as a keyword argument must not collide with them
    node: tuple[ASTNode, ...] = ()
    changes: tuple[ASTNode, ...] = ()
    tag: int = 0
    note: int = dataclasses.field(default=0, compare=False)


U = Universe("c09", [
    C("TL", TL, [F("v", PROP, alphabet=(0,))]),
    C("TS", TS, [F("v", PROP, alphabet=(0,))], bases=("TL",)),
    C("TP", TP, [F("one", OPT), F("items", VAR, maxlen=3), F("tag", PROP, alphabet=(0,))]),
    C("TQ", TQ, [F("one", OPT), F("items", VAR, maxlen=3), F("tag", PROP, alphabet=(0,))], bases=("TP",)),
])
# the shaped family: a class with two tuple fields (exhaustive enumeration above keeps to the 4 classes)
U2 = Universe("c09-shaped", U.classes and [U.classes[c] for c in ("TL", "TS", "TP", "TQ")] + [
    C("TW", TW, [F("node", VAR, maxlen=3), F("changes", VAR, maxlen=3), F("tag", PROP, alphabet=(0,))])])
TCLS = ["TL", "TS", "TP", "TQ"]
# "copy" returns a distinct node that is == to the one it stands for, "annotate" rewrites a property that does not take
# part in comparison: both are replacements (new objects that must be substituted and make every ancestor new)
RULES = ["none", "keep", "rewrite", "replace", "remove", "raise", "copy", "annotate"]
MRO = {"TL": ["TL"], "TS": ["TS", "TL"], "TP": ["TP"], "TQ": ["TQ", "TP"], "TW": ["TW"]}


class Boom(Exception):
    pass


def make_visitor(rules: dict, strict: bool):
    methods = {"strict": strict}

    def mk(rule, cname):
        if rule == "keep":
            return lambda self, node: self.generic_visit(node)
        if rule == "rewrite":
            def rw(self, node):
                new = self.generic_visit(node)
                if isinstance(new, TL):
                    return dataclasses.replace(new, v=new.v + 1)
                return dataclasses.replace(new, tag=new.tag + 1)

            def rw_helper(self, node):
                # the documented way for subclasses: ask the helper for the changed child fields, add own changes to that
                # dictionary and hand it to dataclasses.replace
                changes = self._transform_children(node)
                if isinstance(node, TL):
                    changes["v"] = node.v + 1
                else:
                    changes["tag"] = node.tag + 1
                return dataclasses.replace(node, **changes)
            return rw_helper if cname in ("TS", "TQ", "TW") else rw
        if rule == "replace":
            return lambda self, node: TL(99)
        if rule == "copy":
            return lambda self, node: dataclasses.replace(self.generic_visit(node))
        if rule == "annotate":
            def an(self, node):
                new = self.generic_visit(node)
                return dataclasses.replace(new, note=new.note + 1)
            return an
        if rule == "remove":
            return lambda self, node: None
        if rule == "raise":
            # the exception a visitor method raises is the user's: for two of the classes it is StopIteration (what next() on
            # an exhausted iterator raises) - the one exception that iteration machinery wrapped around the call would swallow
            def rs(self, node, cname=cname):
                if cname in ("TS", "TQ", "TW"):
                    raise StopIteration("raised by the visitor method")
                raise Boom()
            return rs
        raise ValueError(rule)

    for cname, rule in rules.items():
        if rule != "none":
            methods[f"visit_{cname}"] = mk(rule, cname)
    return layered("V", ASTTransformVisitor, methods, sum(1 for r in rules.values() if r != "none") % 4)()


def layered(name, base, ns, layout):
    """The visitor class in one of five layouts (what a project with its own base visitor / rule table looks like):
    0 flat - flag and methods in one class; 1 the strict flag set on an intermediate base class and only inherited by the
    class that defines the methods; 2 flag and methods defined on a base class, the class in use adds nothing."""
    if layout == 0:
        return type(name, (base,), dict(ns))
    if layout == 1:
        mid = type(name + "Base", (base,), {"strict": ns["strict"]})
        return type(name, (mid,), {k: v for k, v in ns.items() if k != "strict"})
    if layout == 2:
        mid = type(name + "Base", (base,), dict(ns))
        return type(name, (mid,), {})
    if layout == 3:
        # the visit_<Class> attributes are not methods of the class at all: plain functions stored on the INSTANCE (a rule table
        # applied in __init__); each closes over the visitor it belongs to
        plain = {k: v for k, v in ns.items() if k.startswith("visit_")}
        rest = {k: v for k, v in ns.items() if not k.startswith("visit_")}

        def __init__(self):
            for k, fn in plain.items():
                setattr(self, k, (lambda f: lambda node: f(self, node))(fn))

        return type(name, (base,), dict(rest, __init__=__init__))
    # 4: static methods (what a linter suggests for a handler that does not use self) - only for handlers that ignore self
    return type(name, (base,), {k: (staticmethod((lambda f: lambda node: f(None, node))(v)) if k.startswith("visit_") else v) for k, v in ns.items()})


def effective_rule(cname, rules, strict):
    if strict:
        return rules.get(cname, "none") if rules.get(cname, "none") != "none" else "keep"
    for k in MRO[cname]:
        if rules.get(k, "none") != "none":
            return rules[k]
    return "keep"  # generic_visit


# reference results: ("same", path) | ("new", cls, {prop: value}, {field: result | tuple(results)}) | None ; raises Boom
def ref_transform(d, path, rules, strict):
    U = U2  # a superset of the exhaustive universe
    cname = d[0]
    rule = effective_rule(cname, rules, strict)
    if rule == "raise":
        raise Boom()
    if rule == "remove":
        return None
    if rule == "replace":
        return ("new", "TL", {"v": 99}, {})
    # keep / rewrite: children first (generic_visit)
    vals = dict(d[1])
    changed = False
    kids = {}
    for f in U.classes[cname].child_fields:
        v = vals[f.name]
        if f.kind == VAR:
            out = []
            for i, x in enumerate(v):
                r = ref_transform(x, path + ((f.name, i),), rules, strict)
                if r is None:
                    changed = True
                    continue
                if r[0] != "same":
                    changed = True
                out.append(r)
            kids[f.name] = tuple(out)
        else:
            if v is None:
                kids[f.name] = None
                continue
            r = ref_transform(v, path + ((f.name, None),), rules, strict)
            if r is None or r[0] != "same":
                changed = True
            kids[f.name] = r
    props = {f.name: vals[f.name] for f in U.classes[cname].prop_fields}
    if rule == "rewrite":
        key = "v" if "v" in props else "tag"
        props[key] += 1
        return ("new", cname, props, kids)
    if rule == "annotate":
        return ("new", cname, dict(props, note=1), kids)
    if rule == "copy":
        return ("new", cname, dict(props, note=0), kids)
    if not changed:
        return ("same", path)
    return ("new", cname, props, kids)


def compare(res, exp, index, orig_ids, where="<root>"):
    """None if the real result fits the reference result, else a message."""
    if exp is None:
        return None if res is None else f"{where}: expected removal (None), got {type(res).__name__}"
    if res is None:
        return f"{where}: got None, expected a node"
    if exp[0] == "same":
        return None if res is index[exp[1]] else f"{where}: an unchanged subtree must be returned as the very same object"
    _, cname, props, kids = exp
    if id(res) in orig_ids:
        return f"{where}: expected a new node, got an original object"
    if type(res).__name__ != cname:
        return f"{where}: class {type(res).__name__}, expected {cname}"
    for k, v in props.items():
        if getattr(res, k) != v:
            return f"{where}: property {k}={getattr(res, k)!r}, expected {v!r}"
    for fn, sub in kids.items():
        got = getattr(res, fn)
        if sub is not None and not (sub and isinstance(sub[0], str)):
            if not isinstance(got, tuple) or len(got) != len(sub):
                return f"{where}.{fn}: expected a tuple of {len(sub)} nodes, got {got!r:.80}"
            for i, (g, e) in enumerate(zip(got, sub)):
                m = compare(g, e, index, orig_ids, f"{where}.{fn}[{i}]")
                if m:
                    return m
        else:
            m = compare(got, sub, index, orig_ids, f"{where}.{fn}")
            if m:
                return m
    return None


def snapshot(index):
    snap = {}
    for p, n in index.items():
        snap[p] = (id(n), n.id, n.content_id, NODE_REGISTRY.get(n.id) is n, tuple((f.name, id(getattr(n, f.name)), getattr(n, f.name) if isinstance(getattr(n, f.name), (int, str)) else None) for f in dataclasses.fields(n)),
                   tuple(tuple(id(x) for x in getattr(n, f.name)) for f in dataclasses.fields(n) if isinstance(getattr(n, f.name), tuple)))
    return snap


def has_same_and_new(exp):
    flags = set()

    def walk(e):
        if e is None:
            return
        flags.add(e[0])
        if e[0] == "new":
            for sub in e[3].values():
                if sub is None:
                    continue
                if sub and isinstance(sub[0], str):
                    walk(sub)
                else:
                    for x in sub:
                        walk(x)

    walk(exp)
    return flags == {"same", "new"}


def check_transform(rec, d, rules, strict):
    NODE_REGISTRY.clear()
    index = {}
    root = U2.build(d, index=index)
    orig_ids = {id(n) for n in index.values()}
    snap = snapshot(index)
    case = {"tree": d, "rules": rules, "strict": strict}
    rec.count("states")
    rec.count("transitions")
    rec.count("traces")
    rec.count("evaluations")
    rec.sample(case)
    try:
        exp = ref_transform(d, (), rules, strict)
        exp_raises = False
    except Boom:
        exp, exp_raises = None, True
    v = make_visitor(rules, strict)
    try:
        res = v.transform(root)
        raised = None
    except (Boom, StopIteration):
        res, raised = None, "Boom"
    except Exception as e:  # noqa: BLE001
        res, raised = None, type(e).__name__
    if exp_raises:
        rec.outcome("raises")
        if raised != "Boom":
            rec.violation("C09|transform|raise", case, f"a visited node's method raises; transform {'returned' if raised is None else 'raised ' + raised}")
    elif raised is not None:
        rec.violation("C09|transform|unexpected-exception", case, f"transform raised {raised}")
    else:
        rec.outcome("removed" if exp is None else exp[0])
        if has_same_and_new(exp):
            rec.count("nontrivial")
        msg = compare(res, exp, index, orig_ids)
        if msg:
            rec.violation(f"C09|transform|{_kind(msg)}", case, msg)
    if snapshot(index) != snap:
        rec.violation("C09|transform|input-modified", case, "the input tree was modified by the transformation")
    del res


def _kind(msg):
    if "very same object" in msg:
        return "identity-lost"
    if "expected a new node" in msg:
        return "not-new"
    if "tuple of" in msg or "expected removal" in msg or "got None" in msg:
        return "removal"
    return "result"


# ---- dispatch ------------------------------------------------------------------------------------------
METHS = ["VA", "VB", "VC", "VD", "Mixin", "ASTNode"]


def check_dispatch(rec):
    nodes = {"VA": VA(), "VB": VB(), "VC": VC(), "VD": VD(), "VE": VE()}
    for mask in range(1 << len(METHS)):
        have = [m for i, m in enumerate(METHS) if mask >> i & 1]
        for strict in (False, True):
            ns = {"strict": strict, "generic_visit": lambda self, node: "generic"}
            for m in have:
                ns[f"visit_{m}"] = (lambda mm: lambda self, node: mm)(m)
            for layout in (0, 1, 2, 3, 4):
                vis = layered("DV", ASTVisitor, ns, layout)()
                for cname, node in nodes.items():
                    rec.count("states")
                    rec.count("transitions")
                    rec.count("traces")
                    rec.count("evaluations")
                    if strict:
                        exp = cname if cname in have else "generic"
                    else:
                        exp = "generic"
                        for k in type(node).__mro__[:-1]:
                            if k.__name__ in have:
                                exp = k.__name__
                                break
                    got = vis.visit(node)
                    rec.outcome(f"dispatch:{exp == 'generic'}")
                    if got != exp:
                        rec.violation("C09|dispatch", {"methods": have, "strict": strict, "node": cname, "layout": layout}, f"visit() called {got}, expected {exp} (class layout {layout})")
    # validate=True
    for mname, ann, as_str in itertools.product(["VA", "VB", "VE"], ["VA", "VB", "VE", None], (False, True)):
        rec.count("evaluations")
        rec.count("transitions")
        rec.count("traces")

        def meth(self, node):
            return None

        if ann is not None:
            meth.__annotations__ = {"node": ann if as_str else {"VA": VA, "VB": VB, "VE": VE}[ann]}
        exp_raises = ann is not None and ann != mname
        try:
            class_ns = {"generic_visit": lambda self, node: None, f"visit_{mname}": meth}
            _make_validated(class_ns)
            raised = False
        except TypeError:
            raised = True
        if raised is not exp_raises:
            rec.violation("C09|validate", {"method": f"visit_{mname}", "annotation": ann, "as_string": as_str},
                          f"validate=True {'raised' if raised else 'accepted'}; name/annotation {'mismatch' if exp_raises else 'agree'}")


def _make_validated(ns):
    class VV(ASTVisitor, validate=True):  # noqa: N801
        locals().update(ns)

    return VV


def shaped_trees():
    L, S = ("TL", (("v", 0),)), ("TS", (("v", 0),))

    def W(first, second):
        return ("TW", (("node", tuple(first)), ("changes", tuple(second)), ("tag", 0)))

    def P(one, items):
        return ("TP", (("one", one), ("items", tuple(items)), ("tag", 0)))

    w1 = W([L, S], [L, S, L])
    return [W([L], [S, L]), w1, W([S, L, S], [L]), W([S, S], [L, L]), W([W([L], [S, L])], [L, S]), P(w1, [L, W([S], [L, S, S])]),
            W([], [S, L, S]), W([L, S, L], []), W([L, S] * 6, [S, L]), P(L, [S, L] * 6)]


def plan(tier, seed):
    return [{"n": N[tier], "k": i, "of": NSHARDS} for i in range(NSHARDS)]


def run_shard(cfg):
    rec = Rec(cfg)
    # configuration dimension: every third shard runs with runtime type checking on (all inputs are well typed,
    # so nothing may change)
    from pyoak import config as _config

    _config.RUNTIME_TYPE_CHECK = cfg["k"] % 3 == 2
    _config.TRACE_LOGGING = cfg["k"] % 3 == 1   # the other switch a user may turn on; it only adds log records
    rec.extra["trace_logging_in_shard_1_mod_3"] = True
    rec.extra["runtime_type_check_in_shard_2_mod_3"] = True
    from .. import zoo

    rec.extra["first_use"] = zoo.warm_up(cfg["k"], base=lambda: TP(one=TL(1)), derived=lambda: TQ(one=TS(1), items=(TL(2),)))
    if cfg["k"] == 0:
        check_dispatch(rec)
    idx = 0
    rulesets = [dict(zip(TCLS, combo)) for combo in itertools.product(RULES, repeat=4)]
    for n in range(1, cfg["n"] + 1):
        for d in U.trees(n):
            for rules in rulesets:
                mine = idx % cfg["of"] == cfg["k"]
                idx += 1
                if not mine:
                    continue
                rec.rank = idx
                for strict in (False, True):
                    check_transform(rec, d, rules, strict)
    # shaped trees with two tuple fields per node: rule sets over {TL, TS, TW} x {TP}
    for d in shaped_trees():
        for combo in itertools.product(RULES, repeat=4):
            mine = idx % cfg["of"] == cfg["k"]
            idx += 1
            if not mine:
                continue
            rec.rank = 10**8 + idx
            rules = dict(zip(["TL", "TS", "TW", "TP"], combo))
            for strict in (False, True):
                check_transform(rec, d, rules, strict)
    rec.bound = {"max_nodes": cfg["n"], "rule_sets": len(rulesets), "shaped_trees": len(shaped_trees())}
    return rec.result()


def replay(case, cfg):
    rec = Rec(cfg)
    if "tree" in case:
        check_transform(rec, case["tree"], dict(case["rules"]), bool(case["strict"]))
    else:
        check_dispatch(rec)
    return rec.result()["violations"]
