"""C14 - duplicate and replace produce faithful, independent copies.

E1 x short histories: every tree with <= N nodes over a leaf with init / non-comparable / non-init properties and a parent
with an optional child, a tuple child and a property (plus shared-subtree variants and origin assignments), in every
set-up of a two-step history {original registered, detached} x {no twin, twin built before, twin built after}.
duplicate(): every position a new registered object with equal class, content_id, all property values and origin,
no id of a registered original, copy == original.  dataclasses.replace / ASTNode.replace for every single-field and
two-field change: same class, changed fields hold the given objects, every other init field holds the very same
object, registry effects and the new id are as the statement says (the id is predicted by a side construction of the
same node with the original taken out of the registry).
"""
from __future__ import annotations

import dataclasses
import itertools
from dataclasses import dataclass, field
from typing import Sequence

from .. import boot  # noqa: F401
from pyoak.node import NODE_REGISTRY, ASTNode

from .. import zoo
from ..core import Rec
from ..desc import OPT, PROP, VAR, C, F, Universe

PID = "C14"
RULE = (
    "trees: all with <= N nodes (+ shared-subtree variants, 2 origin assignments) x 6 set-ups; operations: duplicate, and "
    "dataclasses.replace / ASTNode.replace with every single change and every pair of changes of init fields.  states = distinct "
    "(tree, set-up) worlds; transitions = operations executed and compared; non-trivial = operations on a tree with >= 2 nodes in a "
    "set-up with a registered twin or a detached original"
)
ASSUMPTIONS = ["the predicted id of ASTNode.replace is read from a side construction in the same registry state minus the original (uses NODE_REGISTRY directly)"]
N = {"quick": 4, "thorough": 5}
NSHARDS = 16


@dataclass(frozen=True)
class DL(ASTNode):
    v: int = 0
    nc: int = field(default=0, compare=False)
    ni: int = field(default=7, init=False)
    tags: Sequence[str] = ()   # a PROPERTY of a collection type: whatever object is given for it is what the new node holds

    def __post_init__(self) -> None:
        ASTNode.__post_init__(self)   # the model validates itself AFTER the base initialisation: a rejected replace fails late
        if self.nc == -1:
            raise ValueError("rejected by the model")


@dataclass(frozen=True)
class DP(ASTNode):
    one: ASTNode | None = None
    items: tuple[ASTNode, ...] = ()
    changes: int = 0   # named like the **changes parameter of ASTNode.replace / dataclasses.replace

    def __len__(self) -> int:  # a container-like node: falsy in a boolean context while `items` is empty (it may still hold `one`)
        return len(self.items)

    def __iter__(self):  # container-like: iterating over the node yields its `items`
        return iter(self.items)

    def __post_init__(self) -> None:
        ASTNode.__post_init__(self)
        if self.changes == -1:
            raise ValueError("rejected by the model")


U = Universe("c14", [
    C("DL", DL, [F("v", PROP, alphabet=(0, 1)), F("nc", PROP, alphabet=(0,), compare=False), F("ni", PROP, init=False, default=7),
                 F("tags", PROP, alphabet=((),))]),
    C("DP", DP, [F("one", OPT), F("items", VAR, maxlen=3), F("changes", PROP, alphabet=(0,))]),
])
# "survived-rejected-replace": every node of the tree has been the receiver of a replace() that its model rejected late (the
# new node already existed); the world must be indistinguishable from "registered"
# "loaded": the tree under test was read from a document (written while a twin held the plain ids, so the document carries
# suffixed ids; nothing of the original is alive at load time)
SETUPS = [(reg, twin) for reg in ("registered", "detached", "survived-rejected-replace", "loaded") for twin in ("none", "twin-before", "twin-after")]


def reload_from_document(make, twin):
    """Build (optionally next to a twin), serialize, drop everything, load.  Returns (root, index)."""
    keep = [make({})] if twin == "twin-before" else []
    idx = {}
    root = make(idx)
    if twin == "twin-after":
        keep.append(make({}))
    doc = root.as_dict()
    paths = list(idx)
    del root, idx, keep
    NODE_REGISTRY.clear()
    back = ASTNode.as_obj(doc)
    index = {}

    def walk_(n, path):
        index[path] = n
        if isinstance(n, DP):
            if n.one is not None:
                walk_(n.one, path + (("one", None),))
            for i, x in enumerate(n.items):
                walk_(x, path + (("items", i),))

    walk_(back, ())
    return back, index


def registry_keys_consistent():
    return all(obj.id == key for key, obj in list(NODE_REGISTRY.items()))


def reject_everywhere(root):
    for n in walk(root):
        try:
            n.replace(nc=-1) if isinstance(n, DL) else n.replace(changes=-1)
        except ValueError:
            continue
        raise AssertionError("harness: the model did not reject the replace")


def walk(n):
    out = [n]
    if isinstance(n, DP):
        if n.one is not None:
            out += walk(n.one)
        for x in n.items:
            out += walk(x)
    return out


def origins_for(kind):
    if kind == 0:
        return None
    return lambda p, d: zoo.O_A01 if len(p) % 2 == 0 else zoo.O_A23


def changes_for(node, fresh):
    """Single changes of init fields: (name, {field: value})."""
    if isinstance(node, DL):
        ch = [("v", {"v": node.v + 2}), ("nc", {"nc": 5}), ("origin", {"origin": zoo.O_B01}), ("tags-list", {"tags": ["x", "y"]})]
    else:
        leaf = fresh()
        ch = [("changes", {"changes": 1}), ("one-none" if node.one is not None else "one-set", {"one": None if node.one is not None else leaf}),
              ("items-append", {"items": node.items + (fresh(),)}), ("origin", {"origin": zoo.O_B01})]
        if node.items:
            ch.append(("items-reversed-or-empty", {"items": tuple(reversed(node.items)) if len(node.items) > 1 else ()}))
        if node.one is not None:
            ch.append(("one-other", {"one": leaf}))
    pairs = []
    for (n1, c1), (n2, c2) in itertools.combinations(ch, 2):
        if not set(c1) & set(c2):
            pairs.append((n1 + "+" + n2, {**c1, **c2}))
    return ch + pairs


def registered_as_itself(n):
    return NODE_REGISTRY.get(n.id) is n


def predict_id(orig, kw, remove_orig: bool):
    """Id of a fresh construction of replace's result in the present registry state (minus the original if asked)."""
    was = remove_orig and registered_as_itself(orig)
    if was:
        del NODE_REGISTRY[orig.id]
    try:
        vals = {f.name: getattr(orig, f.name) for f in dataclasses.fields(orig) if f.init}
        vals.update(kw)
        probe = type(orig)(**vals)
        pid = probe.id
        if NODE_REGISTRY.get(pid) is probe:
            del NODE_REGISTRY[pid]
        del probe
    finally:
        if was:
            NODE_REGISTRY[orig.id] = orig
    return pid


def same_id_worlds():
    """Trees that hold two DISTINCT node objects with one id (legitimate: ASTNode.replace hands the id on, a detached
    node's id is re-used) and different non-comparable values."""
    def via_replace():
        x = DL(1, nc=1)
        y = x.replace(nc=2)          # keeps x's id; x is stale but alive
        return DP(items=(x, y, DL(3)))

    def via_detach():
        x = DL(1, nc=1, origin=zoo.O_A01)
        x.detach_self()
        y = DL(1, nc=2, origin=zoo.O_A01)   # same id as the detached x
        return DP(one=x, items=(y,))

    def nested():
        x = DP(one=DL(1, nc=1), changes=0)
        y = x.replace(one=DL(1, nc=9))      # content-equal, other non-comparable value below; may share x's id
        return DP(items=(x, y))

    def wide():
        return DP(one=DL(0), items=tuple(DL(i % 4, nc=i) for i in range(12)))   # 12 elements with twins (two-digit suffixes)

    def tuple_subclass():
        # a tuple field may hold an instance of a tuple SUBCLASS (a NamedTuple, a user's own sequence type)
        return DP(one=DL(0), items=Kids((DL(1), DP(items=Kids((DL(2), DL(1)))))))

    return [("same-id-via-replace", via_replace), ("same-id-via-detach", via_detach), ("same-id-nested", nested), ("wide-tuple", wide),
            ("tuple-subclass", tuple_subclass)]


class Kids(tuple):
    """A tuple subclass (what typing.NamedTuple instances are)."""


@dataclass(frozen=True)
class HB(ASTNode):  # childless base ...
    v: int = 0


@dataclass(frozen=True)
class HC(HB):  # ... whose subclass adds child fields
    kid: ASTNode | None = None
    kids: tuple[ASTNode, ...] = ()


def check_first_use(rec, first):
    """duplicate / replace on a class hierarchy must not depend on which class was used first.  Fresh classes per call."""
    import sys
    import types as _t

    n = next(_hcount)
    mod = _t.ModuleType(f"mc_c14_gen_{n}")
    mod.__dict__.update(ASTNode=ASTNode, dataclass=dataclass)
    sys.modules[mod.__name__] = mod
    src = (f"@dataclass(frozen=True)\nclass HB{n}(ASTNode):\n    v: int = 0\n\n"
           f"@dataclass(frozen=True)\nclass HC{n}(HB{n}):\n    kid: ASTNode | None = None\n    kids: tuple[ASTNode, ...] = ()\n")
    exec(compile(src, f"<c14:{n}>", "exec", dont_inherit=True), mod.__dict__)
    B, Cc = mod.__dict__[f"HB{n}"], mod.__dict__[f"HC{n}"]
    NODE_REGISTRY.clear()
    case = {"tree": ("first-use", first), "share": None, "origins": 0, "setup": ["registered", "none"]}
    rec.count("states")

    def fresh_tree():
        return Cc(1, kid=B(2), kids=(B(3), Cc(4, kid=B(5))))

    if first == "base":
        b = B(9)
        b.duplicate()
        b.replace(v=8)
        dataclasses.replace(b, v=7)
    elif first == "bare-ASTNode":
        ASTNode().duplicate()
    else:
        fresh_tree().duplicate()
    t = fresh_tree()
    rec.count("transitions"); rec.count("traces"); rec.count("evaluations"); rec.count("nontrivial")
    d = t.duplicate()

    def walk2(x):
        out = [x]
        if isinstance(x, Cc):
            if x.kid is not None:
                out += walk2(x.kid)
            for y in x.kids:
                out += walk2(y)
        return out

    on, dn = walk2(t), walk2(d)
    ids = {id(x) for x in on}
    if len(on) != len(dn) or any(id(x) in ids for x in dn):
        rec.violation("C14|duplicate|shares-object", case, f"first used: {first}; duplicate() of a subclass instance re-uses node objects of the original")
    elif any(type(a) is not type(b) or a.content_id != b.content_id or NODE_REGISTRY.get(b.id) is not b for a, b in zip(on, dn)) or not (d == t):
        rec.violation("C14|duplicate|unfaithful", case, f"first used: {first}; the copy differs from the original")
    rec.outcome(f"first-use:{first}")
    from pyoak import serialize as _ser, types as _pt

    for c in (B, Cc):
        _ser.TYPES.pop(c.__name__, None)
        for dd in (_pt._TYPE_TO_ALL_FIELDS, _pt._TYPE_TO_CHILD_FIELDS, _pt._TYPE_TO_PROPS):
            dd.pop(c, None)
    sys.modules.pop(mod.__name__, None)


_hcount = itertools.count()


def build_indexed(builder):
    root = builder()
    index = {}

    def walk_(n, path):
        index[path] = n
        if isinstance(n, DP):
            if n.one is not None:
                walk_(n.one, path + (("one", None),))
            for i, x in enumerate(n.items):
                walk_(x, path + (("items", i),))

    walk_(root, ())
    return root, index


def check_world(rec, d, share, okind, setup, builder=None):
    reg, twin = setup
    NODE_REGISTRY.clear()
    keep = []

    def make(idx):
        if builder is not None:
            r, ix = build_indexed(builder)
            idx.update(ix)
            return r
        return U.build(d, origin=origins_for(okind), index=idx, share=share)

    if reg == "loaded":
        root, index = reload_from_document(make, twin)
    else:
        if twin == "twin-before":
            keep.append(make({}))
        index = {}
        root = make(index)
        if twin == "twin-after":
            keep.append(make({}))
    if reg == "detached":
        root.detach()
    was_registered = [registered_as_itself(n) for n in walk(root)] if reg == "survived-rejected-replace" else None
    if reg == "survived-rejected-replace":
        reject_everywhere(root)
    case = {"tree": d, "share": None if not share else [[list(k), list(v)] for k, v in share.items()], "origins": okind, "setup": list(setup)}
    rec.count("states")
    rec.sample(case)
    nontriv = len(index) >= 2 and (twin != "none" or reg == "detached")

    def ev():
        rec.count("transitions"); rec.count("traces"); rec.count("evaluations")
        if nontriv:
            rec.count("nontrivial")

    def bad(kind, msg, **kw):
        rec.violation(f"C14|{kind}", dict(case, **kw), msg)

    if not registry_keys_consistent():
        bad("registry|key-mismatch", "the registry holds a node under a key that is not its id (set-up: " + reg + ")")
    if was_registered is not None and [registered_as_itself(n) for n in walk(root)] != was_registered:
        bad("rejected-replace|registry", "a replace() rejected by the node's model changed which nodes are registered (the ids later operations hand out depend on it)")
    # ---- duplicate -------------------------------------------------------------------------------------
    ev()
    orig_nodes = walk(root)
    orig_ids = {id(n) for n in orig_nodes}
    reg_orig_idstrings = {n.id for n in orig_nodes if registered_as_itself(n)}
    try:
        dup = root.duplicate()
    except Exception as e:  # noqa: BLE001
        bad("duplicate|raises", f"duplicate() of a valid tree raised {type(e).__name__}: {str(e)[:150]}")
        return
    dnodes = walk(dup)
    if len(dnodes) != len(orig_nodes):
        bad("duplicate|shape", "duplicate has another number of positions")
    else:
        for o, c in zip(orig_nodes, dnodes):
            if id(c) in orig_ids:
                bad("duplicate|shares-object", "duplicate() re-uses a node object of the original")
                break
            if type(c) is not type(o) or c.content_id != o.content_id or c.origin != o.origin or \
                    any(getattr(c, f.name) != getattr(o, f.name) for f in dataclasses.fields(o) if f.name not in ("id", "content_id") and not isinstance(getattr(o, f.name), (ASTNode, tuple))):
                bad("duplicate|unfaithful", "a copied node differs in class, content_id, a property value or origin")
                break
            if not registered_as_itself(c):
                bad("duplicate|not-registered", "a copied node is not registered")
                break
            if c.id in reg_orig_idstrings:
                bad("duplicate|id-of-registered-original", "a copied node carries the id of a registered original node")
                break
        if not (dup == root) or dup is root:
            bad("duplicate|not-equal", "duplicate() != original")
    rec.outcome(f"duplicate:{reg}:{twin}")
    del dup, dnodes

    # ---- replace ---------------------------------------------------------------------------------------
    fresh_n = itertools.count(50)

    def fresh():
        return DL(next(fresh_n))

    targets = list(dict.fromkeys(id(n) for n in orig_nodes))
    byid = {id(n): n for n in orig_nodes}
    for tid in targets[:3]:
        pos = [p for p, n in index.items() if id(n) == tid][0]
        nchanges = len(changes_for(byid[tid], fresh))
        for ci in range(nchanges):
            for api in ("dataclasses.replace", "ASTNode.replace"):
                # every operation starts from a freshly built world: replace changes the registry
                NODE_REGISTRY.clear()
                keep2 = []
                if reg == "loaded":
                    root2, idx2 = reload_from_document(make, twin)
                else:
                    if twin == "twin-before":
                        keep2.append(make({}))
                    idx2 = {}
                    root2 = make(idx2)
                    if twin == "twin-after":
                        keep2.append(make({}))
                if reg == "detached":
                    root2.detach()
                if reg == "survived-rejected-replace":
                    reject_everywhere(root2)
                node = idx2[pos]
                cname, kw2 = changes_for(node, fresh)[ci]
                ev()
                was_reg = registered_as_itself(node)
                old_id = node.id
                c2 = dict(case, node=pos, change=cname, api=api)
                pred = predict_id(node, kw2, remove_orig=(api == "ASTNode.replace"))
                try:
                    new = dataclasses.replace(node, **kw2) if api == "dataclasses.replace" else node.replace(**kw2)
                except Exception as e:  # noqa: BLE001
                    rec.violation(f"C14|{api}|raises", c2, f"{type(e).__name__}: {str(e)[:150]}")
                    continue
                if type(new) is not type(node) or new is node:
                    rec.violation(f"C14|{api}|class", c2, "result is not a new node of the same class")
                    continue
                for f in dataclasses.fields(node):
                    if not f.init:
                        continue
                    want = kw2[f.name] if f.name in kw2 else getattr(node, f.name)
                    got = getattr(new, f.name)
                    same = got is want or (not isinstance(want, (ASTNode, tuple)) and got == want and f.name in kw2)
                    if isinstance(want, tuple) and f.name in kw2:
                        same = isinstance(got, tuple) and len(got) == len(want) and all(a is b for a, b in zip(got, want))
                    if not same:
                        rec.violation(f"C14|{api}|field", dict(c2, field=f.name), f"field {f.name}: {'changed field does not hold the given value' if f.name in kw2 else 'untouched init field is not the very same object'}")
                if not registered_as_itself(new):
                    rec.violation(f"C14|{api}|new-not-registered", c2, "the new node is not registered")
                if api == "ASTNode.replace":
                    if registered_as_itself(node):
                        rec.violation("C14|ASTNode.replace|original-still-registered", c2, "ASTNode.replace left the original registered")
                    if new.id != pred:
                        rec.violation("C14|ASTNode.replace|id", c2, f"new id {new.id}; a fresh construction with the original absent gets {pred} (original id {old_id})")
                else:
                    if was_reg and not registered_as_itself(node):
                        rec.violation("C14|dataclasses.replace|original-unregistered", c2, "dataclasses.replace removed the registered original from the registry")
                    if was_reg and new.id == old_id:
                        rec.violation("C14|dataclasses.replace|same-id", c2, "dataclasses.replace gave the new node the id of the still registered original")
                    if new.id != pred:
                        rec.violation("C14|dataclasses.replace|id", c2, f"new id {new.id}; a fresh construction gets {pred}")
                rec.outcome(f"{api}:{'keeps-id' if new.id == old_id else 'new-id'}")
                del new, root2, idx2, keep2


def share_variants(d):
    pos = U.positions(d)[1:]
    out = [None]
    for (pa, da), (pb, db) in itertools.combinations(pos, 2):
        if da == db and pb[: len(pa)] != pa:
            out.append({pb: pa})
            break
    return out


def plan(tier, seed):
    return [{"n": N[tier], "k": i, "of": NSHARDS} for i in range(NSHARDS)]


def run_shard(cfg):
    rec = Rec(cfg)
    # configuration dimension: every third shard runs with runtime type checking on (all inputs are well typed,
    # so nothing may change)
    from pyoak import config as _config

    _config.RUNTIME_TYPE_CHECK = cfg["k"] % 3 == 2
    _config.TRACE_LOGGING = cfg["k"] % 3 == 1   # the other switch a user may turn on; it only adds log records
    rec.extra["trace_logging_in_shard_1_mod_3"] = True
    rec.extra["runtime_type_check_in_shard_2_mod_3"] = True
    idx = 0
    for n in range(1, cfg["n"] + 1):
        for d in U.trees(n):
            for share in share_variants(d):
                for okind in (0, 1):
                    for setup in SETUPS:
                        mine = idx % cfg["of"] == cfg["k"]
                        idx += 1
                        if not mine:
                            continue
                        rec.rank = idx
                        check_world(rec, d, share, okind, setup)
    for j, (name, b) in enumerate(same_id_worlds()):
        for setup in SETUPS:
            idx += 1
            if idx % cfg["of"] == cfg["k"]:
                rec.rank = 10**7 + idx
                check_world(rec, ("shaped", name), None, 0, setup, builder=b)
    if cfg["k"] == 0:
        for first in ("base", "derived", "bare-ASTNode"):
            check_first_use(rec, first)
    rec.bound = {"max_nodes": cfg["n"], "setups": len(SETUPS), "same_id_worlds": len(same_id_worlds())}
    return rec.result()


def replay(case, cfg):
    rec = Rec(cfg)
    share = None
    if case.get("share"):
        share = {tuple(tuple(s) for s in k): tuple(tuple(s) for s in v) for k, v in case["share"]}
    if case["tree"][0] == "first-use":
        for first in ("base", "derived", "bare-ASTNode"):
            check_first_use(rec, first)
        return rec.result()["violations"]
    builder = None
    if case["tree"][0] == "shaped":
        builder = dict(same_id_worlds())[case["tree"][1]]
    check_world(rec, case["tree"], share, int(case["origins"]), tuple(case["setup"]), builder=builder)
    return rec.result()["violations"]
