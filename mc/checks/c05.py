"""C05 - traversals visit exactly the descendants, in order, with exact position info.

E1: every tree with <= N nodes over 8 field shapes (single, optional, union, variadic tuple, fixed tuple,
multi-field, inherited, falsy leaf), shared-object variants, x prune/filter predicates enumerated as subsets of
positions; dfs (pre/post), bfs, gather and `children` are executed on the real nodes and compared with the
reference orders of mc.ref.traversal computed on the descriptor.
"""
from __future__ import annotations

import itertools

from .. import boot  # noqa: F401
from .. import zoo
from ..core import Rec
from ..ref import traversal as R

PID = "C05"
RULE = (
    "all trees with exactly n nodes, n=1..N, over the 8-class traversal universe in lexicographic order, plus every "
    "variant in which two equal disjoint subtrees are one shared object; per tree all (prune, filter) pairs of position "
    "subsets (all 4^k for k<=3 distinct positions, else prune in {none, all, singletons, pairs} x filter in {all, none, "
    "singletons, =prune, complement}); each executed for dfs pre-order, dfs post-order and bfs, plus gather over class "
    "sets; re-entrancy: all 9 ordered pairs of {dfs, dfs bottom-up, bfs} advanced alternately after an abandoned traversal, and complete "
    "traversals inside the loop body of each. states = trees (incl. shared variants); transitions = traversal executions, each compared with the "
    "reference; non-trivial = distinct (tree, prune, filter) cases with >= 2 positions and a non-empty prune set"
)
ASSUMPTIONS = [
    "predicates are pure functions of the yielded (node, parent, field, index); they are handed over as callable objects that are falsy in a boolean context",
    "a position in a tree with shared objects is identified by (node object, parent object, field, index)",
]
N = {"quick": 4, "thorough": 5}
SHARE_N = {"quick": 4, "thorough": 5}
NSHARDS = 16


class FalsyPredicate:
    """A callable predicate whose truth value is False."""

    def __init__(self, fn):
        self.fn = fn

    def __call__(self, x):
        return self.fn(x)

    def __bool__(self) -> bool:
        return False


def plan(tier, seed):
    return [{"n": N[tier], "share_n": SHARE_N[tier], "k": i, "of": NSHARDS} for i in range(NSHARDS)]


def share_variants(U, d):
    """share maps {later path: earlier path} for every pair of equal, disjoint subtrees."""
    pos = U.positions(d)[1:]
    out = []
    for (pa, da), (pb, db) in itertools.combinations(pos, 2):
        if da == db and pb[: len(pa)] != pa:
            out.append({pb: pa})
    return out


def check_tree(U, d, share, rec: Rec, light=False, route="direct"):
    zoo.reset_registry()
    index = {}
    root = U.build(d, index=index, share=share)
    if route != "direct":
        # non-initial states: the same tree reached by another route must traverse identically
        from ..desc import node_at

        if route == "duplicate":
            root = root.duplicate()
        elif route == "deserialized":
            payload = root.as_dict()
            del root
            index.clear()
            zoo.reset_registry()
            root = zoo.ASTNode.as_obj(payload)
        elif route == "identity-transform":
            from pyoak.visitor import ASTTransformVisitor

            root = type("IdV", (ASTTransformVisitor,), {})().transform(root)
        index = {p: node_at(root, p) for p, _ in U.positions(d)}
    paths = [p for p, _ in U.positions(d)[1:]]
    desc_at = dict(U.positions(d))

    def key(p):
        return (id(index[p]), id(index[p[:-1]]), p[-1][0], p[-1][1])

    pkey = {p: key(p) for p in paths}
    keys = list(dict.fromkeys(pkey.values()))
    case = {"tree": d, "share": None if not share else [[list(k), list(v)] for k, v in share.items()], "route": route}
    rec.count("states")
    rec.sample(case)

    def ikey(info):
        # total on whatever the library offers: something that is not a position (no field) gets a key no position has
        return (id(info.node), id(info.parent), getattr(info.field, "name", None), info.findex)

    def mk(S, log):
        # the predicate is a callable OBJECT that is falsy in a boolean context (think of a recording predicate derived from
        # list): "no predicate given" is None, never "a predicate that happens to be falsy"
        return FalsyPredicate(lambda info: (log.append(ikey(info)), ikey(info) in S)[1])

    def run(fn, gen, exp_paths, pr, flog, plog):
        rec.count("transitions")
        rec.count("traces")
        got = []
        try:
            for info in gen:
                got.append(ikey(info))
                if len(got) > 4 * len(pkey) + 16:   # a finite tree has finitely many positions: do not wait for the end
                    rec.violation(f"C05|{fn}|sequence", dict(case, prune=len(pr)), f"{fn}: more than {len(got) - 1} positions yielded from a tree of {len(pkey)} positions (the traversal does not end)")
                    getattr(gen, "close", lambda: None)()
                    return
                try:
                    v = getattr(info.parent, info.field.name)
                    at = v[info.findex] if info.findex is not None else v
                    ok = at is info.node and (info.findex is None) == (not isinstance(v, tuple))
                except Exception:  # noqa: BLE001
                    ok = False
                if not ok:
                    rec.violation(f"C05|{fn}|position-info", case, f"{fn}: yielded (node,parent,field,index) does not address the node")
        except Exception as e:  # noqa: BLE001
            # the predicates of this harness are total on positions (node, parent, field, index): an exception here means the
            # traversal offered something that is not a position, or failed by itself
            rec.violation(f"C05|{fn}|raises", dict(case, prune=len(pr)), f"{fn}: the traversal raised {type(e).__name__}: {str(e)[:120]}")
            return
        exp = [pkey[p] for p in exp_paths]
        if got != exp:
            rec.violation(f"C05|{fn}|sequence", dict(case, prune=len(pr)), f"{fn}: yielded positions differ from reference order",
                          expected=[_pp(paths, pkey, k) for k in exp], observed=[_pp(paths, pkey, k) for k in got])
        off = {pkey[p] for p in R.offered(U, d, lambda p: pkey[p] in pr)}
        if flog is not None:
            if set(flog) - off or set(plog or ()) - off:
                rec.violation(f"C05|{fn}|visited-below-pruned", case, f"{fn}: a predicate was called for a position below a pruned node")
            if off - set(flog):
                rec.violation(f"C05|{fn}|not-offered-to-filter", case, f"{fn}: a visited position was never offered to the filter")
        rec.outcome(f"{fn}:{len(got)}")

    # children property
    rec.count("evaluations")
    exp_children = [index[((fn, i),)] for fn, i, _ in U.children(d)]
    got_children = root.children
    if len(got_children) != len(exp_children) or any(a is not b for a, b in zip(got_children, exp_children)):
        rec.violation("C05|children|sequence", case, "children differs from the direct child nodes in declaration order")

    # default arguments
    allp = lambda p: True  # noqa: E731
    nop = lambda p: False  # noqa: E731
    run("dfs", root.dfs(), R.pre_order(U, d, nop, allp), frozenset(), None, None)
    run("dfs-bu", root.dfs(bottom_up=True), R.post_order(U, d, nop, allp), frozenset(), None, None)
    run("bfs", root.bfs(), R.level_order(U, d, nop, allp), frozenset(), None, None)

    # predicates that do not look at the position at all: "prune everything" (exactly the direct children are visited - the
    # start node itself is never offered to a predicate), "keep nothing"
    always, never = FalsyPredicate(lambda info: True), FalsyPredicate(lambda info: False)
    everything = frozenset(keys)
    run("dfs", root.dfs(prune=always), R.pre_order(U, d, allp, allp), everything, None, None)
    run("dfs-bu", root.dfs(prune=always, bottom_up=True), R.post_order(U, d, allp, allp), everything, None, None)
    run("bfs", root.bfs(prune=always), R.level_order(U, d, allp, allp), everything, None, None)
    run("dfs", root.dfs(filter=never), [], frozenset(), None, None)
    run("bfs", root.bfs(prune=always, filter=never), [], everything, None, None)
    # re-entrancy: two traversals of the same tree advanced alternately, an abandoned traversal before a complete one, and
    # complete inner traversals (of the yielded node and of the root) between the steps of an outer one
    if len(keys) >= 2 and route == "direct":
        makers = {"dfs": (lambda: root.dfs(), [pkey[p] for p in R.pre_order(U, d, nop, allp)]),
                  "dfs-bu": (lambda: root.dfs(bottom_up=True), [pkey[p] for p in R.post_order(U, d, nop, allp)]),
                  "bfs": (lambda: root.bfs(), [pkey[p] for p in R.level_order(U, d, nop, allp)])}
        for (na, (ma, ea)), (nb, (mb, eb)) in itertools.product(makers.items(), repeat=2):
            rec.count("transitions"); rec.count("traces"); rec.count("evaluations")
            ga, gb = ma(), mb()
            abandoned = mb()
            next(abandoned, None)
            del abandoned
            oa, ob = [], []
            live = [(ga, oa), (gb, ob)]
            while live:
                for g, o in list(live):
                    x = next(g, None)
                    if x is None:
                        live.remove((g, o))
                    else:
                        o.append(ikey(x))
            if oa != ea or ob != eb:
                rec.violation("C05|interleaved|sequence", dict(case, traversals=[na, nb]), f"{na} and {nb} advanced alternately: a sequence differs from the one each yields alone",
                              expected=[[_pp(paths, pkey, k) for k in ea], [_pp(paths, pkey, k) for k in eb]],
                              observed=[[_pp(paths, pkey, k) for k in oa], [_pp(paths, pkey, k) for k in ob]])
        for na, (ma, ea) in makers.items():
            rec.count("transitions"); rec.count("traces"); rec.count("evaluations")
            oa = []
            for x in ma():
                oa.append(ikey(x))
                inner = [len(list(x.node.dfs())), len(list(root.bfs())), len(list(x.node.gather(zoo.ASTNode)))]
                if inner[1] != len(makers['bfs'][1]) or inner[0] != inner[2]:
                    rec.violation("C05|nested|sequence", dict(case, traversals=[na]), "a complete traversal run inside the loop body of another one yields a different number of positions")
            if oa != ea:
                rec.violation("C05|nested|sequence", dict(case, traversals=[na]), f"{na}: the sequence changes when complete traversals run inside its loop body",
                              expected=[_pp(paths, pkey, k) for k in ea], observed=[_pp(paths, pkey, k) for k in oa])
        rec.outcome("re-entrancy")

    if len(keys) <= 3:
        subs = [frozenset(s) for k in range(len(keys) + 1) for s in itertools.combinations(keys, k)]
        combos = [(pr, fl) for pr in subs for fl in subs]
    else:
        full = frozenset(keys)
        prs = [frozenset(), full] + [frozenset([k]) for k in keys]
        if not light:
            prs += [frozenset(s) for s in itertools.combinations(keys, 2)]
        combos = []
        for pr in prs:
            fls = [full, frozenset(), pr, full - pr]
            if not light:
                fls += [frozenset([k]) for k in keys]
            for fl in dict.fromkeys(fls):
                combos.append((pr, fl))
    for pr, fl in combos:
        rec.count("evaluations")
        if len(keys) >= 2 and pr:
            rec.count("nontrivial")
        prune_p = lambda p: pkey[p] in pr  # noqa: E731
        filt_p = lambda p: pkey[p] in fl  # noqa: E731
        positional = (len(pr) + len(fl)) % 2 == 1   # the documented parameter order (prune, filter, bottom_up) is part of the API
        for fn, bu in (("dfs", False), ("dfs-bu", True)):
            flog, plog = [], []
            gen = (root.dfs(mk(pr, plog) if pr else None, mk(fl, flog), bu) if positional
                   else root.dfs(prune=mk(pr, plog) if pr else None, filter=mk(fl, flog), bottom_up=bu))
            run(fn, gen, (R.post_order if bu else R.pre_order)(U, d, prune_p, filt_p), pr, flog, plog)
        flog, plog = [], []
        gen = (root.bfs(mk(pr, plog) if pr else None, mk(fl, flog)) if positional
               else root.bfs(prune=mk(pr, plog) if pr else None, filter=mk(fl, flog)))
        run("bfs", gen, R.level_order(U, d, prune_p, filt_p), pr, flog, plog)

    # gather
    present = list(dict.fromkeys(dd[0] for dd in desc_at.values()))
    class_sets = [(c,) for c in present] + [("ASTNode",), ("ZO",), ("ZL",)]
    if len(present) >= 2:
        class_sets += [tuple(present[:2]), tuple(present)]
    extras = [None, frozenset()] + [frozenset([k]) for k in keys[:3]]
    prunes = [None] + [frozenset([k]) for k in keys[:3]] + [frozenset(keys)]
    for cs in dict.fromkeys(class_sets):
        pycs = tuple(zoo.ASTNode if c == "ASTNode" else U.classes[c].pycls if c in U.classes else getattr(zoo, c) for c in cs)
        for exact in (False, True):
            for ex in extras:
                for pr in prunes:
                    rec.count("evaluations")
                    rec.count("transitions")
                    rec.count("traces")
                    prs = pr or frozenset()

                    def filt_p(p, cs=cs, exact=exact, ex=ex):
                        cn = desc_at[p][0]
                        hit = (cn in cs) if exact else any(_isinst(U, cn, c) for c in cs)
                        return hit and (ex is None or pkey[p] in ex)

                    exp = [index[p] for p in R.pre_order(U, d, lambda p: pkey[p] in prs, filt_p)]
                    got = list(root.gather(pycs if len(pycs) > 1 else pycs[0], exact_type=exact,
                                           extra_filter=None if ex is None else mk(ex, []),
                                           prune=None if pr is None else mk(pr, [])))
                    if len(got) != len(exp) or any(a is not b for a, b in zip(got, exp)):
                        rec.violation("C05|gather|sequence", dict(case, classes=list(cs), exact=exact),
                                      "gather differs from the pre-order stream restricted to the requested classes",
                                      expected=[type(x).__name__ for x in exp], observed=[type(x).__name__ for x in got])
                    rec.outcome(f"gather:{len(got)}")


def _isinst(U, cn, base):
    if base == "ASTNode":
        return True
    if base not in U.classes:
        # a zoo class outside this universe: only an exact/base relation through declared bases counts
        return any(_isinst(U, b, base) for b in U.classes[cn].bases) or cn == base
    return U.isinstance(cn, base)


def _pp(paths, pkey, k):
    for p in paths:
        if pkey[p] == k:
            return "/".join(f"{f}[{i}]" if i is not None else f for f, i in p)
    return "<unknown position>"


def big_trees():
    """Hand-shaped larger trees (beyond the exhaustive bound) against size-triggered shortcuts: a 13-wide tuple,
    a depth-8 chain, a 3-level mixed tree, tuples of tuples."""
    L = ("ZL", (("v", 0),))
    F_ = ("ZF", ())

    def V(*xs):
        return ("ZV", (("items", tuple(xs)),))

    def M(a, items, b):
        return ("ZM", (("a", a), ("items", tuple(items)), ("b", b)))

    chain = L
    for i in range(7):
        chain = ("ZO", (("c", chain),)) if i % 2 else ("ZU", (("c", chain),))
    m1 = M(L, (L, F_), L)
    m2 = M(V(L, L), (m1, L), V(F_))
    return [
        V(*([L] * 13)),
        chain,
        m2,
        M(m2, (V(L, L, L), ("ZD", (("c", m1), ("more", (L, F_))))), L),
        V(V(L, L, L), V(L, F_, L), V(L, L, L), V()),
        ("ZX", (("pair", (L, V(L, ("ZX", (("pair", (L, L)),)), L))),)),
        # a class with two node bases and an empty body (fields from both), at the root, inside a tuple and as a single child
        ("ZJ", (("pair", (L, V(L, L))), ("c", ("ZJ", (("pair", (L, F_)), ("c", None)))))),
        V(("ZJ", (("pair", (L, L)), ("c", V(L, F_)))), L, ("ZU", (("c", ("ZJ", (("pair", (L, L)), ("c", L)))),))),
    ]


def huge_trees():
    """Tuples beyond 256 elements (indices above the range of CPython's shared small integers)."""
    L = ("ZL", (("v", 0),))
    F_ = ("ZF", ())
    return [("ZV", (("items", tuple([L, F_] * 150)),)), ("ZU", (("c", ("ZV", (("items", tuple([L] * 259 + [("ZO", (("c", L),))])),))),))]


DEEP = 3000


def check_deep_chain(rec: Rec):
    """A tree 3000 levels deep (three times the interpreter's default recursion limit): the traversals are specified for
    every tree, and a chain has exactly one order."""
    zoo.reset_registry()
    root, nodes = zoo.deep_chain(DEEP)
    exp = [id(n) for n in nodes[1:]]
    case = {"tree": f"chain of depth {DEEP}", "share": None, "route": "deep-chain"}
    mid = nodes[DEEP // 2]
    runs = {
        "dfs": (lambda: root.dfs(), exp),
        "dfs-bu": (lambda: root.dfs(bottom_up=True), exp[::-1]),
        "bfs": (lambda: root.bfs(), exp),
        "dfs-pruned": (lambda: root.dfs(prune=FalsyPredicate(lambda i: i.node is mid)), exp[: DEEP // 2]),
        "bfs-pruned": (lambda: root.bfs(prune=FalsyPredicate(lambda i: i.node is mid)), exp[: DEEP // 2]),
        "dfs-bu-filtered": (lambda: root.dfs(filter=FalsyPredicate(lambda i: isinstance(i.node, zoo.ZO)), bottom_up=True),
                            [id(n) for n in reversed(nodes[1:]) if isinstance(n, zoo.ZO)]),
    }
    for name, (mkgen, e) in runs.items():
        rec.count("transitions"); rec.count("traces"); rec.count("evaluations"); rec.count("states")
        try:
            got = []
            for info in mkgen():
                got.append(id(info.node))
                if getattr(info.parent, info.field.name) is not info.node or info.findex is not None:
                    rec.violation("C05|deep-chain|position-info", dict(case, traversal=name), "yielded (node, parent, field, index) does not address the node")
                    break
        except RecursionError:
            rec.violation("C05|deep-chain|recursion", dict(case, traversal=name), f"{name} on a chain of depth {DEEP} raised RecursionError")
            continue
        if got != e:
            rec.violation("C05|deep-chain|sequence", dict(case, traversal=name), f"{name}: {len(got)} positions yielded, {len(e)} expected (or another order)")
        rec.outcome(f"deep:{name}")
    rec.count("transitions"); rec.count("traces"); rec.count("evaluations")
    try:
        g = list(root.gather(zoo.ZL)), list(root.gather((zoo.ZU, zoo.ZL), exact_type=True))
        if [id(x) for x in g[0]] != [exp[-1]] or [id(x) for x in g[1]] != [id(n) for n in nodes[1:] if type(n) in (zoo.ZU, zoo.ZL)]:
            rec.violation("C05|deep-chain|sequence", dict(case, traversal="gather"), "gather on a deep chain differs from the restricted pre-order stream")
    except RecursionError:
        rec.violation("C05|deep-chain|recursion", dict(case, traversal="gather"), f"gather on a chain of depth {DEEP} raised RecursionError")
    del root, nodes


def check_bushy(rec: Rec):
    """A tree with 17 + 17^2 + 17^3 = 5219 positions (fan-out 17, depth 3): more positions than any block or buffer size a
    traversal might use internally (the small trees never fill one)."""
    zoo.reset_registry()
    fan = 17

    def mk(depth):
        if depth == 0:
            return zoo.ZL(0)
        return zoo.ZV(items=tuple(mk(depth - 1) for _ in range(fan)))

    root = mk(3)

    def pre(n, out):
        for c in getattr(n, "items", ()):
            out.append(c)
            pre(c, out)
        return out

    def post(n, out):
        for c in getattr(n, "items", ()):
            post(c, out)
            out.append(c)
        return out

    def level(n):
        out, q = [], [n]
        while q:
            nxt = []
            for x in q:
                for c in getattr(x, "items", ()):
                    out.append(c)
                    nxt.append(c)
            q = nxt
        return out

    P, Q, L = pre(root, []), post(root, []), level(root)
    pruned = {id(P[1]), id(P[400]), id(P[-20])}
    pnode = {id(n): n for n in P}

    def below(seq):
        """positions of seq that are not strictly below a pruned node"""
        dead = set()
        for i in pruned:
            for c in pre(pnode[i], []):
                dead.add(id(c))
        return [n for n in seq if id(n) not in dead]

    third = {id(n) for k, n in enumerate(P) if k % 3 == 0}
    case = {"tree": f"fan-out {fan}, depth 3 ({len(P)} positions)", "share": None, "route": "bushy"}
    runs = [
        ("dfs", lambda: root.dfs(), P), ("dfs-bu", lambda: root.dfs(bottom_up=True), Q), ("bfs", lambda: root.bfs(), L),
        ("dfs-filtered", lambda: root.dfs(filter=FalsyPredicate(lambda i: id(i.node) in third)), [n for n in P if id(n) in third]),
        ("dfs-bu-filtered", lambda: root.dfs(filter=FalsyPredicate(lambda i: id(i.node) in third), bottom_up=True), [n for n in Q if id(n) in third]),
        ("bfs-filtered", lambda: root.bfs(filter=FalsyPredicate(lambda i: id(i.node) in third)), [n for n in L if id(n) in third]),
        ("dfs-pruned", lambda: root.dfs(prune=FalsyPredicate(lambda i: id(i.node) in pruned)), below(P)),
        ("dfs-bu-pruned", lambda: root.dfs(prune=FalsyPredicate(lambda i: id(i.node) in pruned), bottom_up=True), below(Q)),
        ("bfs-pruned", lambda: root.bfs(prune=FalsyPredicate(lambda i: id(i.node) in pruned)), below(L)),
        ("gather", lambda: ((n, None) for n in root.gather(zoo.ZL)), [n for n in P if isinstance(n, zoo.ZL)]),
    ]
    for name, mkgen, exp in runs:
        rec.count("transitions"); rec.count("traces"); rec.count("evaluations"); rec.count("states")
        got = [x.node if hasattr(x, "node") else x[0] for x in mkgen()]
        if len(got) != len(exp) or any(a is not b for a, b in zip(got, exp)):
            first = next((k for k, (a, b) in enumerate(zip(got, exp)) if a is not b), min(len(got), len(exp)))
            rec.violation("C05|bushy|sequence", dict(case, traversal=name), f"{name}: {len(got)} positions yielded, {len(exp)} expected; first difference at position {first}")
        rec.outcome(f"bushy:{name}")
    del root, P, Q, L, pnode


def run_shard(cfg):
    rec = Rec(cfg)
    # configuration dimension: every third shard runs with runtime type checking on (all inputs are well typed,
    # so nothing may change)
    from pyoak import config as _config

    _config.RUNTIME_TYPE_CHECK = cfg["k"] % 3 == 2
    _config.TRACE_LOGGING = cfg["k"] % 3 == 1   # the other switch a user may turn on; it only adds log records
    rec.extra["trace_logging_in_shard_1_mod_3"] = True
    rec.extra["runtime_type_check_in_shard_2_mod_3"] = True
    rec.extra['first_use'] = zoo.warm_up(cfg['k'])
    U = zoo.universe(zoo.U_TRAV)
    UB = zoo.universe(zoo.U_TRAV + ["ZJ"])   # the hand-shaped trees may use one more class
    idx = 0
    for j, d in enumerate(big_trees()):
        if j % cfg["of"] == cfg["k"]:
            rec.rank = 10**9 + j
            rec.count("big_trees")
            check_tree(UB, d, None, rec, light=False)
    if cfg["k"] == 11 % cfg["of"]:
        check_deep_chain(rec)
    if cfg["k"] == 13 % cfg["of"]:
        check_bushy(rec)
    for j, d in enumerate(huge_trees()):
        if (j + 7) % cfg["of"] == cfg["k"]:
            rec.rank = 2 * 10**9 + j
            rec.count("big_trees")
            check_tree(U, d, None, rec, light=True)
    for n in range(1, cfg["n"] + 1):
        for d in U.trees(n):
            mine = idx % cfg["of"] == cfg["k"]
            idx += 1
            if not mine:
                continue
            rec.rank = idx
            check_tree(U, d, None, rec, light=(n >= 5))
            if cfg.get("tier") == "thorough" and n <= 4:
                for route in ("duplicate", "deserialized", "identity-transform"):
                    check_tree(U, d, None, rec, light=True, route=route)
            if n <= cfg["share_n"]:
                for sh in share_variants(U, d):
                    check_tree(U, d, sh, rec, light=True)
    rec.bound = {"max_nodes": cfg["n"], "shared_variants_up_to_nodes": cfg["share_n"]}
    return rec.result()


def replay(case, cfg):
    rec = Rec(cfg)
    U = zoo.universe(zoo.U_TRAV + ["ZJ"])
    share = None
    if case.get("share"):
        share = {tuple(tuple(s) for s in k): tuple(tuple(s) for s in v) for k, v in case["share"]}
    if case.get("route") == "deep-chain":
        check_deep_chain(rec)
        return rec.result()["violations"]
    if case.get("route") == "bushy":
        check_bushy(rec)
        return rec.result()["violations"]
    check_tree(U, case["tree"], share, rec, route=case.get("route", "direct"))
    return rec.result()["violations"]
