"""Shared plumbing for checks: result recording, sampling, JSON helpers."""
from __future__ import annotations

import collections
import json
import os
import signal
import time

ROOT = os.path.dirname(os.path.dirname(os.path.abspath(__file__)))
SCRATCH = os.path.join(ROOT, ".scratch")
MAX_SAMPLES = 4


def jsonable(x):
    """Best-effort conversion of descriptors (nested tuples, frozensets, ...) into JSON values."""
    if isinstance(x, (str, int, float, bool)) or x is None:
        return x
    if isinstance(x, dict):
        return {str(k): jsonable(v) for k, v in x.items()}
    if isinstance(x, (list, tuple)):
        return [jsonable(v) for v in x]
    if isinstance(x, (set, frozenset)):
        return sorted((jsonable(v) for v in x), key=repr)
    return repr(x)


def detuple(x):
    """Inverse convention used by replay(): JSON lists -> tuples, recursively."""
    if isinstance(x, list):
        return tuple(detuple(v) for v in x)
    if isinstance(x, dict):
        return {k: detuple(v) for k, v in x.items()}
    return x


class Rec:
    """Collects what one shard covered.  Everything is counted, nothing is a constant."""

    def __init__(self, cfg: dict | None = None):
        self.cfg = cfg or {}
        self.seed = int(self.cfg.get("seed", 0))
        self.c: collections.Counter = collections.Counter()
        self.outcomes: collections.Counter = collections.Counter()
        self.viol: dict[str, dict] = {}
        self.vcount: collections.Counter = collections.Counter()
        self.samples: list = []
        self._n = 0
        self.notes: list[str] = []
        self.exhaustive = True
        self.bound: dict = {}
        self.t0 = time.time()
        self.extra: dict = {}
        self.rank = 0  # global enumeration index of the current case (smallest counterexample wins)
        # known findings may be pinned to the exact violating instances seen in a completed thorough run
        self.known_instances = None
        kp = self.cfg.get("known_instances")
        if kp and os.path.exists(kp):
            with open(kp) as f:
                self.known_instances = set(f.read().split())
        self.dump_instances = bool(self.cfg.get("dump_instances"))
        self.instances: set = set()

    # --- counters -------------------------------------------------------------------------------
    def count(self, key: str, n: int = 1) -> None:
        self.c[key] += n

    def outcome(self, key: str, n: int = 1) -> None:
        self.outcomes[str(key)] += n

    def sample(self, case) -> None:
        """Offer a case as a sample; a few are kept, which ones depends on VERIF_SEED only."""
        n = self._n
        self._n += 1
        if len(self.samples) >= MAX_SAMPLES:
            return
        stride = 211
        if n == 0 or n % stride == (self.seed * 37 + 11) % stride:
            self.samples.append(jsonable(case))

    def violation(self, sig: str, case, msg: str = "", expected=None, observed=None, instance: str | None = None) -> None:
        if instance is not None:
            if self.dump_instances:
                self.instances.add(instance)
            if self.known_instances is not None and instance not in self.known_instances:
                sig += "|unlisted-instance"
        self.vcount[sig] += 1
        if sig not in self.viol:
            self.viol[sig] = {
                "sig": sig,
                "case": jsonable(case),
                "msg": msg,
                "expected": jsonable(expected),
                "observed": jsonable(observed),
                "rank": self.rank,
            }

    def cap(self, why: str) -> None:
        self.exhaustive = False
        self.notes.append("CAPPED: " + why)

    def result(self) -> dict:
        return {
            "counters": dict(self.c),
            "outcomes": dict(self.outcomes),
            "violations": list(self.viol.values()),
            "vcount": dict(self.vcount),
            "samples": self.samples,
            "notes": self.notes,
            "exhaustive": self.exhaustive,
            "bound": self.bound,
            "extra": self.extra,
            "instances": sorted(self.instances),
            "wall_s": round(time.time() - self.t0, 3),
        }


class Watchdog:
    """SIGALRM budget around one implementation step; a timeout is a harness finding, never skipped."""

    class Timeout(BaseException):   # not an Exception: handlers for "whatever the implementation raises" must not swallow it
        pass

    def __init__(self, seconds: int):
        self.seconds = seconds

    def _h(self, signum, frame):
        raise Watchdog.Timeout()

    def __enter__(self):
        self._old = signal.signal(signal.SIGALRM, self._h)
        signal.alarm(self.seconds)
        return self

    def __exit__(self, *exc):
        signal.alarm(0)
        signal.signal(signal.SIGALRM, self._old)
        return False


def dump(path: str, obj) -> None:
    os.makedirs(os.path.dirname(path), exist_ok=True)
    tmp = path + ".tmp"
    with open(tmp, "w") as f:
        json.dump(obj, f, indent=1, sort_keys=False, default=repr)
    os.replace(tmp, path)
