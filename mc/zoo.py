"""The v2 node-model zoo: real pyoak classes plus the hand-written spec the reference models read.

The spec (mc.desc.C / F records) is written by hand from the class definitions below - it is *not* derived from
pyoak's own field classification, so it is an independent statement of 'what the class definition dictates'.
"""
from __future__ import annotations

from dataclasses import dataclass, field

from . import boot  # noqa: F401
from pyoak.node import ASTNode
from pyoak.origin import NO_ORIGIN, CodeOrigin, GeneratedCodeOrigin, MemoryTextSource, get_code_range, merge_origins

from .desc import FIX, ONE, OPT, PROP, VAR, C, F, Universe


@dataclass(frozen=True)
class ZL(ASTNode):  # leaf
    v: int = 0


@dataclass(frozen=True, slots=True)
class ZK(ASTNode):  # second leaf class, same fields, other name; slotted (dataclass creates such a class twice)
    v: int = 0


@dataclass(frozen=True)
class ZS(ZL):  # subclass of the leaf, no new fields
    pass


@dataclass(frozen=True)
class ZF(ASTNode):  # a leaf that is falsy in a boolean context
    def __len__(self) -> int:
        return 0


@dataclass(frozen=True)
class ZU(ASTNode):  # required single child
    c: ASTNode


@dataclass(frozen=True)
class ZO(ASTNode):  # optional single child; falsy in a boolean context although it may hold a child (ZD inherits this)
    c: ASTNode | None = None

    def __bool__(self) -> bool:
        return False


@dataclass(frozen=True, slots=True)
class ZV(ASTNode):  # variadic tuple; slotted
    items: tuple[ASTNode, ...] = ()


@dataclass(frozen=True)
class ZX(ASTNode):  # fixed pair, first element typed to the leaf family
    pair: tuple[ZL, ASTNode]


@dataclass(frozen=True)
class ZM(ASTNode):  # mixed: optional, tuple, union-typed optional; container-like (iterable, sized, indexable)
    a: ASTNode | None = None
    items: tuple[ASTNode, ...] = ()
    b: ZL | ZV | None = None

    def __iter__(self):
        return iter(self.items)

    def __len__(self) -> int:
        return len(self.items)

    def __getitem__(self, i):
        return self.items[i]

    def __contains__(self, x) -> bool:
        return any(x is y for y in self.items)


@dataclass(frozen=True)
class ZN(ASTNode):  # the same child fields as ZM (names and kinds), declared in another order
    b: ZL | ZV | None = None
    items: tuple[ASTNode, ...] = ()
    a: ASTNode | None = None


@dataclass(frozen=True)
class ZD(ZO):  # derived: inherits `c`, adds a tuple
    more: tuple[ASTNode, ...] = ()


@dataclass(frozen=True)
class ZJ(ZO, ZX):  # TWO node bases and an empty body: the fields are those of both bases (ZX's `pair`, then ZO's `c`)
    pass


ANY = None
LEAFY = {"ZL", "ZS"}

_SPECS = {
    "ZL": C("ZL", ZL, [F("v", PROP, alphabet=(0,))]),
    "ZK": C("ZK", ZK, [F("v", PROP, alphabet=(0,))]),
    "ZS": C("ZS", ZS, [F("v", PROP, alphabet=(0,))], bases=("ZL",)),
    "ZF": C("ZF", ZF, []),
    "ZU": C("ZU", ZU, [F("c", ONE, ANY)]),
    "ZO": C("ZO", ZO, [F("c", OPT, ANY)]),
    "ZV": C("ZV", ZV, [F("items", VAR, ANY, maxlen=3)]),
    "ZX": C("ZX", ZX, [F("pair", FIX, (LEAFY, ANY))]),
    "ZM": C("ZM", ZM, [F("a", OPT, ANY), F("items", VAR, ANY, maxlen=2), F("b", OPT, {"ZL", "ZS", "ZV"})]),
    "ZD": C("ZD", ZD, [F("c", OPT, ANY), F("more", VAR, ANY, maxlen=2)], bases=("ZO",)),
    "ZJ": C("ZJ", ZJ, [F("pair", FIX, (LEAFY, ANY)), F("c", OPT, ANY)], bases=("ZO", "ZX")),
    "ZN": C("ZN", ZN, [F("b", OPT, {"ZL", "ZS", "ZV"}), F("items", VAR, ANY, maxlen=2), F("a", OPT, ANY)]),
}


def universe(names, name=None, props=None) -> Universe:
    """A universe over a subset of the zoo; props optionally overrides property alphabets: {(cls, field): values}."""
    cs = []
    for n in names:
        c = _SPECS[n]
        fields = []
        for f in c.fields:
            if f.kind == PROP and props and (n, f.name) in props:
                f = F(f.name, PROP, alphabet=tuple(props[(n, f.name)]), compare=f.compare, init=f.init, default=f.default)
            fields.append(f)
        cs.append(C(c.name, c.pycls, fields, c.bases))
    return Universe(name or "+".join(names), cs)


# the traversal universe of C05/C06 (8 field shapes + falsy leaf)
U_TRAV = ["ZL", "ZF", "ZU", "ZO", "ZV", "ZX", "ZM", "ZD", "ZN"]
# the same without the falsy leaf
U_PLAIN = ["ZL", "ZS", "ZU", "ZO", "ZV", "ZX", "ZM", "ZD"]

# ---- origins -----------------------------------------------------------------------------------------
SRC_A = MemoryTextSource("abcdef", source_uri="mem://a")
SRC_B = MemoryTextSource("uvwxyz", source_uri="mem://b")


def code_origin(src, a: int, b: int) -> CodeOrigin:
    return CodeOrigin(src, get_code_range(a, 1, a, b, 1, b))


O_A01 = code_origin(SRC_A, 0, 1)
O_A23 = code_origin(SRC_A, 2, 3)
O_B01 = code_origin(SRC_B, 0, 1)
O_GEN = GeneratedCodeOrigin(SRC_B)
O_MULTI = merge_origins(O_A01, O_B01)
ORIGINS3 = {"-": NO_ORIGIN, "a": O_A01, "b": O_A23}
ORIGINS7 = {"-": NO_ORIGIN, "a": O_A01, "b": O_A23, "o": O_B01, "g": O_GEN, "m": O_MULTI}


def reset_registry() -> None:
    from pyoak.node import NODE_REGISTRY

    NODE_REGISTRY.clear()


def warm_up(k: int, base=None, derived=None) -> str:
    """Order of first use is state (generated accessors, per-class caches).  Every shard starts by using ONE class of a
    hierarchy in every way the library offers, chosen by the shard number: nothing / a bare ASTNode / the base / the
    derived class.  Results must not depend on it."""
    import dataclasses

    from pyoak.node import NODE_REGISTRY
    from pyoak.visitor import ASTTransformVisitor, ASTVisitor

    kind = ["none", "bare-ASTNode", "base", "derived"][k % 4]
    if kind == "none":
        return kind
    base = base or (lambda: ZO(c=ZL(1)))
    derived = derived or (lambda: ZD(c=ZL(1), more=(ZL(2),)))
    n = ASTNode() if kind == "bare-ASTNode" else (base() if kind == "base" else derived())

    class _V(ASTVisitor[int]):
        def generic_visit(self, node):
            return 1 + sum(self.visit(c) for c in node.get_child_nodes())

    list(n.dfs()), list(n.bfs()), list(n.gather(ASTNode)), n.children, list(n.get_properties()), list(n.iter_child_fields())
    list(n.get_child_nodes()), list(n.get_child_nodes_with_field(sort_keys=True)), n.to_properties_dict(), type(n).get_child_fields()
    n.duplicate(), dataclasses.replace(n), n.to_tree().get_depth(n), n == n, hash(n), n.is_equal(n)
    _V().visit(n), type("_T", (ASTTransformVisitor,), {})().transform(n)
    type(n).as_obj(n.as_dict()), type(n).from_json(n.to_json())
    list(n.findall("//ZL")), n.replace(origin=O_A23)
    NODE_REGISTRY.clear()
    return kind


def deep_chain(depth: int, leaf_origin=None, bottom_origin=None):
    """A single-path tree `depth` levels deep (beyond the interpreter's recursion limit), built bottom-up without
    recursion: leaf ZL, then alternately ZU (required child) and ZO (optional child, falsy).  Returns (root, nodes from
    the root down to the leaf)."""
    x = ZL(1) if leaf_origin is None else ZL(1, origin=leaf_origin)
    nodes = [x]
    for i in range(depth):
        kw = {"origin": bottom_origin} if (i == 0 and bottom_origin is not None) else {}
        x = ZO(c=x, **kw) if i % 2 else ZU(c=x, **kw)
        nodes.append(x)
    nodes.reverse()
    return x, nodes
