"""Check runner.

  python -m mc.run C05 --tier quick          run one check, rewrite evidence/C05.json
  python -m mc.run C05 --replay replays/X    re-execute one recorded violation in a fresh process
  python -m mc.run --selftest                setup_cmd: imports, boot binding, schema tooling

Exit codes: 0 property held on everything explored (known findings printed as KNOWN-FINDING lines);
1 at least one unlisted violation (one "VIOLATION property=<id> replay=<path>" line each);
2 harness error (HARNESS-ERROR line) - nondeterminism not owned, worker crash, timeout.
"""
from __future__ import annotations

import argparse
import collections
import hashlib
import importlib
import json
import os
import shutil
import subprocess
import sys
import time

from .core import ROOT, SCRATCH, dump

PY = sys.executable
LEVEL = "model_checking"
KNOWN_FILE = os.path.join(ROOT, "known_findings.json")
OUT = os.environ.get("VERIF_OUT") or ROOT  # evidence/ and replays/ go here (the mutant driver redirects them)
CORES = os.cpu_count() or 4


def _env(cfg_env: dict | None) -> dict:
    env = dict(os.environ)
    env["PYTHONDONTWRITEBYTECODE"] = "1"
    env.setdefault("PYTHONHASHSEED", "0")
    env["PYTHONPATH"] = ROOT + (os.pathsep + env["PYTHONPATH"] if env.get("PYTHONPATH") else "")
    for k, v in (cfg_env or {}).items():
        env[k] = str(v)
    return env


def run_shards(pid: str, cfgs: list[dict], scratch: str, jobs: int):
    """Run every shard in its own interpreter; at most `jobs` cores' worth at a time."""
    pending = list(enumerate(cfgs))
    running: list = []
    results: dict[int, dict] = {}
    used = 0
    while pending or running:
        while pending:
            i, cfg = pending[0]
            need = min(int(cfg.get("procs", 1)), jobs)
            if used and used + need > jobs:
                break
            pending.pop(0)
            cin, cout = os.path.join(scratch, f"cfg{i}.json"), os.path.join(scratch, f"out{i}.json")
            dump(cin, cfg)
            p = subprocess.Popen(
                [PY, "-m", "mc.worker", pid, "shard", cin, cout],
                env=_env(cfg.get("env")),
                cwd=ROOT,
                stdout=subprocess.PIPE,
                stderr=subprocess.STDOUT,
            )
            running.append((i, p, cout, need, time.time(), int(cfg.get("timeout", 3 * 3600))))
            used += need
        time.sleep(0.02)
        still = []
        for i, p, cout, need, t0, tmo in running:
            rc = p.poll()
            if rc is None:
                if time.time() - t0 > tmo:
                    p.kill()
                    p.wait()
                    results[i] = {"ok": False, "error": f"shard {i} timed out after {tmo}s"}
                    used -= need
                else:
                    still.append((i, p, cout, need, t0, tmo))
                continue
            out = p.stdout.read().decode("utf-8", "replace") if p.stdout else ""
            used -= need
            if os.path.exists(cout):
                with open(cout) as f:
                    results[i] = json.load(f)
                if out.strip() and os.environ.get("VERIF_VERBOSE"):
                    print(f"[shard {i}] {out.strip()[-2000:]}")
            else:
                results[i] = {"ok": False, "error": f"shard {i} exited rc={rc} without result:\n{out[-4000:]}"}
        running = still
    return [results[i] for i in range(len(cfgs))]


def load_known(pid: str):
    if not os.path.exists(KNOWN_FILE):
        return {}
    with open(KNOWN_FILE) as f:
        data = json.load(f)
    return {e["signature"]: e for e in data.get("findings", []) if e.get("property") == pid and e.get("status") == "known"}


def replay_in_fresh_process(pid: str, viol: dict, cfg: dict, scratch: str) -> str:
    """'isolated' | 'shard' | 'no'.  A violation is reported only if it reproduces in a fresh process."""
    tag = hashlib.sha1(viol["sig"].encode()).hexdigest()[:10]
    cin, cout = os.path.join(scratch, f"replay_in_{tag}.json"), os.path.join(scratch, f"replay_out_{tag}.json")
    dump(cin, {"case": viol["case"], "cfg": cfg})
    for attempt in range(2):
        if os.path.exists(cout):
            os.remove(cout)
        subprocess.run([PY, "-m", "mc.worker", pid, "replay", cin, cout], env=_env(cfg.get("env")), cwd=ROOT,
                       stdout=subprocess.DEVNULL, stderr=subprocess.DEVNULL, timeout=3600)
        if not os.path.exists(cout):
            return "no"
        with open(cout) as f:
            r = json.load(f)
        if not (r.get("ok") and any(v["sig"] == viol["sig"] for v in r.get("violations", []))):
            break
        if attempt == 1:
            return "isolated"
    # needs the shard prefix?  re-run the whole shard (deterministic order) and look for the signature
    sub = os.path.join(scratch, f"reshard_{tag}")
    os.makedirs(sub, exist_ok=True)
    res = run_shards(pid, [dict(cfg, scratch=os.path.join(sub, "w"))], sub, CORES)[0]
    if res.get("ok") and any(v["sig"] == viol["sig"] for v in res.get("violations", [])):
        return "shard"
    return "no"


def validate_evidence(path: str) -> str | None:
    vt = shutil.which("python3-vt") or "/opt/veriftools/pyvenv/bin/python"
    schema = "/root/.vp/EVIDENCE.schema.json"
    if not (os.path.exists(vt) and os.path.exists(schema)):
        return None
    code = (
        "import json,sys,jsonschema;"
        "jsonschema.validate(json.load(open(sys.argv[1])), json.load(open(sys.argv[2])))"
    )
    r = subprocess.run([vt, "-c", code, path, schema], capture_output=True, text=True)
    return None if r.returncode == 0 else r.stderr[-1500:]


def run_check(pid: str, tier: str, seed: int, jobs: int, dump_instances: bool = False) -> int:
    t0 = time.time()
    mod = importlib.import_module(f"mc.checks.{pid.lower()}")
    scratch = os.path.join(SCRATCH, f"{pid}-{os.getpid()}")
    shutil.rmtree(scratch, ignore_errors=True)
    os.makedirs(scratch)
    try:
        cfgs = mod.plan(tier, seed)
        for i, c in enumerate(cfgs):
            c.setdefault("seed", seed)
            c.setdefault("tier", tier)
            c["shard"] = i
            c["scratch"] = os.path.join(scratch, f"w{i}")
            c["known_instances"] = os.path.join(ROOT, "known_instances", f"{pid}.txt")
            if dump_instances:
                c["dump_instances"] = True
                c["known_instances"] = None
        results = run_shards(pid, cfgs, scratch, jobs)
        if dump_instances:
            inst = sorted({h for r in results for h in r.get("instances", [])})
            os.makedirs(os.path.join(ROOT, "known_instances"), exist_ok=True)
            with open(os.path.join(ROOT, "known_instances", f"{pid}.txt"), "w") as f:
                f.write("\n".join(inst) + "\n")
            print(f"wrote {len(inst)} violating instances to known_instances/{pid}.txt (maintenance action, never done by a normal run)")
        bad = [r for r in results if not r.get("ok")]
        if bad:
            print(f"HARNESS-ERROR property={pid} {bad[0]['error'][-3000:]}")
            return 2

        counters: collections.Counter = collections.Counter()
        outcomes: collections.Counter = collections.Counter()
        vcount: collections.Counter = collections.Counter()
        samples, notes, viols = [], [], {}
        exhaustive = True
        bound = {}
        extra = {}
        for cfg, r in zip(cfgs, results):
            counters.update(r.get("counters", {}))
            outcomes.update(r.get("outcomes", {}))
            vcount.update(r.get("vcount", {}))
            for s in r.get("samples", []):
                if len(samples) < 6:
                    samples.append(s)
            notes += r.get("notes", [])
            exhaustive = exhaustive and r.get("exhaustive", True)
            bound.update(r.get("bound", {}))
            for k, v in (r.get("extra") or {}).items():
                extra.setdefault(k, v)
            for v in r.get("violations", []):
                if v["sig"] not in viols or v.get("rank", 0) < viols[v["sig"]][0].get("rank", 0):
                    viols[v["sig"]] = (v, cfg)
        if hasattr(mod, "finalize"):
            fin = mod.finalize(cfgs, results, tier, seed) or {}
            counters.update(fin.get("counters", {}))
            outcomes.update(fin.get("outcomes", {}))
            notes += fin.get("notes", [])
            for s in fin.get("samples", []):
                samples.append(s)
            for v in fin.get("violations", []):
                vcount[v["sig"]] += v.get("count", 1)
                viols.setdefault(v["sig"], (v, v.get("cfg") or (cfgs[0] if cfgs else {})))
            extra.update(fin.get("extra", {}))

        known = load_known(pid)
        rc = 0
        known_hits, reported = [], []
        todo = []
        for sig in sorted(viols, key=lambda s_: (viols[s_][0].get("rank", 0), s_)):
            v, cfg = viols[sig]
            if sig in known:
                print(f"KNOWN-FINDING: property={pid} {known[sig].get('what', sig)} [{sig}] x{vcount[sig]}")
                known_hits.append(sig)
            else:
                todo.append(sig)
        # every unlisted violation is re-executed in a fresh process before it is reported (several at a time)
        import concurrent.futures as cf

        def _repro(sig):
            v, cfg = viols[sig]
            return "finalize" if v.get("no_replay") else replay_in_fresh_process(pid, v, cfg, scratch)

        with cf.ThreadPoolExecutor(max_workers=max(1, min(8, jobs))) as ex:
            hows = dict(zip(todo, ex.map(_repro, todo)))
        for sig in todo:
            v, cfg = viols[sig]
            how = hows[sig]
            if how == "no":
                print(f"HARNESS-ERROR property={pid} violation did not reproduce in a fresh process: {sig}: {v.get('msg','')[:500]}")
                rc = max(rc, 2)
                continue
            h = hashlib.sha1(sig.encode()).hexdigest()[:10]
            rpath = os.path.join(OUT, "replays", f"{pid}-{h}.json")
            dump(rpath, {"property": pid, "signature": sig, "reproduced": how, "cfg": {k: cfg[k] for k in cfg if k != "scratch"},
                         "case": v["case"], "msg": v.get("msg"), "expected": v.get("expected"), "observed": v.get("observed"),
                         "occurrences": vcount[sig]})
            print(f"VIOLATION property={pid} replay={rpath}")
            print(f"  signature: {sig}\n  {v.get('msg','')[:600]}")
            reported.append(sig)
            rc = max(rc, 1)

        if reported:
            rc = 1  # a reproduced violation outranks a harness error about another, unreproducible one
        if not samples:
            samples = [{"note": "no sample offered"}]
        cov = {
            "states": int(counters.pop("states", 0)),
            "transitions": int(counters.pop("transitions", 0)),
            "traces_validated_against_impl": int(counters.pop("traces", 0)),
            "evaluations": int(counters.pop("evaluations", 0)),
            "distinct_nontrivial": int(counters.pop("nontrivial", 0)),
            "rule": getattr(mod, "RULE", ""),
            "samples": samples,
            "exhaustive": bool(exhaustive),
            "bound_completed": bound,
            "distinct_outcomes": len(outcomes),
            "outcomes": dict(sorted(outcomes.items(), key=lambda kv: -kv[1])[:40]),
            "shards": len(cfgs),
            "configurations": [{k: v for k, v in c.items() if k in ("env", "digest", "order", "label")} for c in cfgs][:32],
            "known_finding_hits": {s: vcount[s] for s in known_hits},
            "unlisted_violation_signatures": reported,
            "notes": notes[:20],
            "repo": os.environ.get("VERIF_REPO", "/repo"),
        }
        for k, v in counters.items():
            cov[k] = v
        cov.update(extra)
        ev = {
            "property_id": pid,
            "tier": tier,
            "seed": seed,
            "level": LEVEL,
            "coverage": cov,
            "assumptions": list(getattr(mod, "ASSUMPTIONS", [])),
            "wall_s": round(time.time() - t0, 2),
            "violations": len(reported),
        }
        epath = os.path.join(OUT, "evidence", f"{pid}.json")
        dump(epath, ev)
        err = validate_evidence(epath)
        if err:
            print(f"HARNESS-ERROR property={pid} evidence does not validate: {err}")
            rc = max(rc, 2)
        print(
            f"{pid} {tier}: states={cov['states']} transitions={cov['transitions']} evaluations={cov['evaluations']} "
            f"nontrivial={cov['distinct_nontrivial']} outcomes={cov['distinct_outcomes']} exhaustive={cov['exhaustive']} "
            f"known={len(known_hits)} violations={len(reported)} wall={ev['wall_s']}s"
        )
        return rc
    finally:
        shutil.rmtree(scratch, ignore_errors=True)
        try:
            os.rmdir(SCRATCH)
        except OSError:
            pass


def do_replay(pid: str, path: str) -> int:
    with open(path) as f:
        data = json.load(f)
    scratch = os.path.join(SCRATCH, f"replay-{os.getpid()}")
    os.makedirs(scratch, exist_ok=True)
    try:
        cfg = data.get("cfg") or {}
        cfg["scratch"] = os.path.join(scratch, "w")
        v = {"sig": data["signature"], "case": data["case"]}
        how = replay_in_fresh_process(pid, v, cfg, scratch)
        if how == "no":
            print(f"replay: {data['signature']} does NOT reproduce on {os.environ.get('VERIF_REPO', '/repo')}")
            return 0
        print(f"VIOLATION property={pid} replay={path}\n  reproduced ({how}): {data['signature']}\n  {data.get('msg')}")
        return 1
    finally:
        shutil.rmtree(scratch, ignore_errors=True)


def selftest() -> int:
    r = subprocess.run([PY, "-c", "import mc.boot, pyoak.node, pyoak.legacy.node, pyoak.match.pattern, pyoak.match.xpath, pyoak.tree, pyoak.visitor; print(pyoak.node.__file__)"],
                       env=_env(None), cwd=ROOT, capture_output=True, text=True)
    print(r.stdout.strip() or r.stderr[-2000:])
    if r.returncode:
        return 2
    for name in sorted(os.listdir(os.path.join(ROOT, "mc", "checks"))):
        if name.startswith("c") and name.endswith(".py"):
            importlib.import_module(f"mc.checks.{name[:-3]}")
    print("selftest ok")
    return 0


def main(argv=None) -> int:
    ap = argparse.ArgumentParser()
    ap.add_argument("pid", nargs="?")
    ap.add_argument("--tier", choices=["quick", "thorough"])
    ap.add_argument("--replay")
    ap.add_argument("--jobs", type=int, default=CORES)
    ap.add_argument("--selftest", action="store_true")
    ap.add_argument("--dump-instances", action="store_true", help="maintenance: rewrite known_instances/<id>.txt from this run")
    a = ap.parse_args(argv)
    if a.selftest:
        return selftest()
    if not a.pid:
        ap.error("property id required")
    pid = a.pid.upper()
    if a.replay:
        return do_replay(pid, a.replay)
    tier = a.tier or os.environ.get("VERIF_TIER") or "quick"
    if tier not in ("quick", "thorough"):
        tier = "quick"
    try:
        seed = int(os.environ.get("VERIF_SEED", "0"))
    except ValueError:
        seed = 0
    return run_check(pid, tier, seed, a.jobs, a.dump_instances)


if __name__ == "__main__":
    sys.exit(main())
