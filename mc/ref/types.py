"""Type-grammar terms, their rendering, and the reference classifier / conformance relation (no `typing` introspection).

term := ("atom", name) | ("opt", T) | ("union", T, U) | ("bar", T, U) | ("vtuple", T) | ("ftuple", T, U) | ("etuple",)
      | ("fset", T) | ("seq", T) | ("map", K, V) | ("list", T) | ("dict", K, V) | ("set", T)
Atoms: int str float bool Any None Lit Enum NI (NewType of int) NN (NewType of node class N1) NL (NewType of list)
       N1 N2 (N2 subclasses N1) FR (forward reference to node class `Later`, defined after the class under test)
"""
from __future__ import annotations

NODE_ATOMS = {"N1", "N2", "NN", "FR"}
# NewTypes over PARAMETRISED types: transparent aliases of the term they wrap (NT = NewType("NT", tuple[N1, ...]),
# NO = NewType("NO", Optional[N1]))
ALIASES = {"NT": ("vtuple", ("atom", "N1")), "NO": ("opt", ("atom", "N1"))}


def expand(t):
    if t[0] == "atom":
        return ALIASES.get(t[1], t)
    return (t[0],) + tuple(expand(a) if isinstance(a, tuple) else a for a in t[1:])
MUT_ATOMS = {"NL", "Lst", "Dct", "St"}   # incl. the BARE mutable collection classes (no type arguments)
ATOM_SRC = {"int": "int", "str": "str", "float": "float", "bool": "bool", "Any": "Any", "None": "None", "Lit": "Literal[1, 'a']",
            "Enum": "E", "NI": "NI", "NN": "NN", "NL": "NL", "N1": "N1", "N2": "N2", "NT": "NT", "NO": "NO", "Lst": "list", "Dct": "dict", "St": "set"}
UNARY = {"opt": "Optional[{0}]", "vtuple": "tuple[{0}, ...]", "fset": "frozenset[{0}]", "seq": "Sequence[{0}]", "list": "list[{0}]", "set": "set[{0}]"}
BINARY = {"union": "Union[{0}, {1}]", "bar": "{0} | {1}", "ftuple": "tuple[{0}, {1}]", "map": "Mapping[{0}, {1}]", "dict": "dict[{0}, {1}]"}

PRELUDE = '''
import enum
from dataclasses import dataclass, field
from typing import Any, Literal, Mapping, NewType, Optional, Sequence, Union
from pyoak.node import ASTNode

class E(enum.Enum):
    A = 1
    B = 2

@dataclass(frozen=True)
class N1(ASTNode):
    v: int = 0

@dataclass(frozen=True)
class N2(N1):
    pass

NI = NewType("NI", int)
NN = NewType("NN", N1)
NL = NewType("NL", list)
NT = NewType("NT", tuple[N1, ...])
NO = NewType("NO", Optional[N1])
'''
LATER = '''
@dataclass(frozen=True)
class Later(ASTNode):
    w: int = 0
'''


def render(t, postponed: bool) -> str:
    """Source text of the annotation.  In plain mode a forward reference is a string literal."""
    k = t[0]
    if k == "atom":
        if t[1] == "FR":
            return "Later" if postponed else "'Later'"
        return ATOM_SRC[t[1]]
    if k == "etuple":
        return "tuple[()]"
    if k in UNARY:
        return UNARY[k].format(render(t[1], postponed))
    return BINARY[k].format(render(t[1], postponed), render(t[2], postponed))


def renderable(t, postponed: bool) -> bool:
    """`X | Y` cannot be evaluated at class-definition time when an operand is a string or None|None."""
    if t[0] == "bar" and not postponed:
        for a in t[1:]:
            if a == ("atom", "FR") or a == ("atom", "Lit"):
                return False
        if t[1] == ("atom", "None") and t[2] == ("atom", "None"):
            return False
        if t[1] == ("atom", "Any") or t[2] == ("atom", "Any"):
            return False
    return all(renderable(a, postponed) for a in t[1:] if isinstance(a, tuple))


def atoms_of(t):
    if t[0] == "atom":
        return {t[1]}
    out = set()
    for a in t[1:]:
        if isinstance(a, tuple):
            out |= atoms_of(a)
    return out


def constructors_of(t):
    if t[0] == "atom":
        return set()
    out = {t[0]}
    for a in t[1:]:
        if isinstance(a, tuple):
            out |= constructors_of(a)
    return out


def union_members(t):
    """Flatten nested unions / optionals into the member list (typing does the same)."""
    if t[0] in ("union", "bar"):
        return union_members(t[1]) + union_members(t[2])
    if t[0] == "opt":
        return union_members(t[1]) + [("atom", "None")]
    return [t]


def is_union(t):
    return t[0] in ("union", "bar", "opt")


def _node_union(t, allow_none: bool) -> bool:
    ms = union_members(t)
    for m in ms:
        if m == ("atom", "None"):
            if not allow_none:
                return False
        elif not (m[0] == "atom" and m[1] in NODE_ATOMS):
            return False
    return any(m != ("atom", "None") for m in ms)


def classify(t) -> str:
    """'child' | 'property' | 'rejected' - written from the statement of C11."""
    t = expand(t)
    ats, cons = atoms_of(t), constructors_of(t)
    has_node = bool(ats & NODE_ATOMS)
    has_mut = bool(ats & MUT_ATOMS) or bool(cons & {"list", "dict", "set"})
    if not has_node:
        return "rejected" if has_mut else "property"
    if has_mut:
        return "rejected"
    if t[0] == "atom" or is_union(t):
        return "child" if _node_union(t, True) else "rejected"
    if t[0] == "vtuple":
        return "child" if _node_union(t[1], False) else "rejected"
    if t[0] == "ftuple":
        return "child" if _node_union(t[1], False) and _node_union(t[2], False) else "rejected"
    return "rejected"


# ---- enumeration -----------------------------------------------------------------------------------
def terms(depth: int, atoms, second, unary=tuple(UNARY), binary=tuple(BINARY)):
    """All terms of nesting depth <= depth.  Binary constructors take their second argument from `second` (atoms only)."""
    level = [("atom", a) for a in atoms]
    out = list(level)
    prev = level
    for _ in range(depth):
        cur = []
        for k in unary:
            for a in prev:
                cur.append((k, a))
        for k in binary:
            for a in prev:
                for b in second:
                    cur.append((k, a, ("atom", b)))
                    if a[0] == "atom" and a[1] != b and ("atom", b) in level:
                        pass
        out += cur
        prev = cur
    out.append(("etuple",))
    return out


# ---- C13: conformance of a value to an (accepted) annotation -------------------------------------------
UNSPEC = "unspecified"


def conforms(v, t, env):
    """True / False / UNSPEC.  env: {'N1': cls, 'N2': cls, 'E': enum class, 'is_node': fn}"""
    k = t[0]
    if k == "atom":
        a = t[1]
        if a == "Any":
            return True
        if a == "None":
            return v is None
        if a == "bool":
            return isinstance(v, bool)
        if a in ("int", "NI"):
            return isinstance(v, int) and not isinstance(v, bool)
        if a == "float":
            if isinstance(v, bool):
                return UNSPEC
            return isinstance(v, (int, float))
        if a == "str":
            return isinstance(v, str)
        if a == "Lit":
            if isinstance(v, (bool, float)):
                return UNSPEC if v in (1, "a") else False
            try:
                return v in (1, "a")
            except TypeError:
                return False
        if a == "Enum":
            return isinstance(v, env["E"])
        if a in ("N1", "NN"):
            return isinstance(v, env["N1"])
        if a == "N2":
            return isinstance(v, env["N2"])
        if a == "FR":
            return isinstance(v, env["Later"])
        raise ValueError(a)
    if k == "opt":
        return True if v is None else conforms(v, t[1], env)
    if k in ("union", "bar"):
        rs = [conforms(v, t[1], env), conforms(v, t[2], env)]
        if True in rs:
            return True
        return UNSPEC if UNSPEC in rs else False
    if k == "etuple":
        return isinstance(v, tuple) and len(v) == 0
    if k == "vtuple":
        return _all(isinstance(v, tuple), [conforms(x, t[1], env) for x in v] if isinstance(v, tuple) else [])
    if k == "ftuple":
        if not isinstance(v, tuple) or len(v) != 2:
            return False
        return _all(True, [conforms(v[0], t[1], env), conforms(v[1], t[2], env)])
    if k == "fset":
        return _all(isinstance(v, frozenset), [conforms(x, t[1], env) for x in v] if isinstance(v, frozenset) else [])
    if k == "seq":
        ok = isinstance(v, (tuple, list, str))
        return _all(ok, [conforms(x, t[1], env) for x in v] if ok else [])
    if k == "map":
        ok = isinstance(v, dict)
        return _all(ok, ([conforms(x, t[1], env) for x in v] + [conforms(x, t[2], env) for x in v.values()]) if ok else [])
    raise ValueError(t)


def _all(ok, rs):
    if not ok or False in rs:
        return False
    return UNSPEC if UNSPEC in rs else True
