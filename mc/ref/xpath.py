"""Reference xpath semantics (no lark, no pyoak): steps are generated as structures, rendered to text for the
implementation and evaluated here by a DP over the node's ancestor chain.

A step is (anywhere: bool, field: str|None, index: int|None, cls: str|None).
`index` None means no constraint (also the text '[]').
A chain is the list of (class_name, stored_field|None, stored_index|None) from the root (index 0) to the node.
"""
from __future__ import annotations

import itertools


def render(steps, first_relative=False, blanks=False, empty_brackets=()):
    """Text of an xpath.  first_relative: omit the leading '//' of an anywhere first step (relative path)."""
    out = []
    for i, (anywhere, field, index, cls) in enumerate(steps):
        sep = "//" if anywhere else "/"
        if i == 0 and anywhere and first_relative:
            sep = ""
        s = sep
        if field is not None:
            s += "@" + field
        if index is not None:
            s += f"[{index}]"
        elif i in empty_brackets:
            s += "[]"
        if cls is not None:
            s += (" " if s[-1:].isalnum() or s[-1:] == "_" else "") + cls  # '@items XL': a blank separates two names
        out.append(s)
    txt = "".join(out)
    if blanks:
        for ch in "/@[]":
            txt = txt.replace(ch, f" {ch} ")
        txt = txt.strip()  # blanks only *between* tokens: a leading blank would turn an absolute path into a relative one
    return txt


def fits(step, link, is_instance):
    anywhere, field, index, cls = step
    cname, sfield, sindex = link
    if cls is not None and not is_instance(cname, cls):
        return False
    if field is not None and sfield != field:
        return False
    if index is not None and sindex != index:
        return False
    return True


def matches(steps, chain, is_instance) -> bool:
    """chain[0] is the root (stored field/index None), chain[-1] the node."""
    k = len(chain) - 1
    prev = None
    for i, step in enumerate(steps):
        cur = [False] * (k + 1)
        for j in range(k + 1):
            if not fits(step, chain[j], is_instance):
                continue
            if i == 0:
                cur[j] = step[0] or j == 0
            elif step[0]:
                cur[j] = any(prev[:j])
            else:
                cur[j] = j > 0 and prev[j - 1]
        prev = cur
    return prev[k]


def step_space(fields, indices, classes, last: bool, first: bool):
    """All steps over the alphabets.  A non-last step may omit the class, but not everything (that spells '//')."""
    for anywhere in (False, True):
        for f in fields:
            for ix in indices:
                for c in classes:
                    if c is None and last:
                        continue
                    if f is None and ix is None and c is None:
                        continue
                    yield (anywhere, f, ix, c)


def paths(nsteps, fields, indices, classes):
    spaces = [list(step_space(fields, indices, classes, last=(i == nsteps - 1), first=(i == 0))) for i in range(nsteps)]
    return itertools.product(*spaces)
