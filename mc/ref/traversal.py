"""Reference traversal orders on descriptors (no pyoak calls).

All functions return lists of paths.  `prune` and `filt` are predicates on paths.
A pruned position is still offered to the filter; nothing below it is visited.
"""
from __future__ import annotations

import collections


def pre_order(U, d, prune, filt, path=()):
    out = []
    for fn, i, cd in U.children(d):
        p = path + ((fn, i),)
        if filt(p):
            out.append(p)
        if not prune(p):
            out += pre_order(U, cd, prune, filt, p)
    return out


def post_order(U, d, prune, filt, path=()):
    out = []
    for fn, i, cd in U.children(d):
        p = path + ((fn, i),)
        if not prune(p):
            out += post_order(U, cd, prune, filt, p)
        if filt(p):
            out.append(p)
    return out


def level_order(U, d, prune, filt, path=()):
    out = []
    q = collections.deque((path + ((fn, i),), cd) for fn, i, cd in U.children(d))
    while q:
        p, cd = q.popleft()
        if filt(p):
            out.append(p)
        if prune(p):
            continue
        q.extend((p + ((fn, i),), x) for fn, i, x in U.children(cd))
    return out


def offered(U, d, prune, path=()):
    """Positions that are visited at all: those with no pruned proper ancestor (below the start)."""
    out = []
    for fn, i, cd in U.children(d):
        p = path + ((fn, i),)
        out.append(p)
        if not prune(p):
            out += offered(U, cd, prune, p)
    return out
