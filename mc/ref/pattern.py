"""Reference pattern semantics (no lark, no pyoak matching code).

Pattern structures (generated, then rendered to text for the implementation):
    Tree  = ("tree", classes, fields)            classes: "*" or tuple of class names
    Field = (fname, spec, capture|None)          spec: None (any value) | Value | Seq
    Seq   = ("seq", ((Value, capture|None), ...), tail)      tail: None | ("tail", capture|None)
    Value = ("re", text) | ("none",) | ("var", name) | Tree
`[]` is the Seq with no elements and no tail.

`match(pat, node, env)` returns (ok, captures) where captures maps names to the very objects.
env supplies:  is_instance(node, class_name) -> bool,  content_equal(a, b) -> bool (both nodes).
"""
from __future__ import annotations

import re


def render(p) -> str:
    kind = p[0]
    if kind == "tree":
        cls = "*" if p[1] == "*" else "|".join(p[1])
        out = "(" + cls
        for fname, spec, cap in p[2]:
            out += f" @{fname}"
            if spec is not None:
                out += "=" + render(spec)
            if cap:
                out += f" -> {cap}"
        return out + ")"
    if kind == "seq":
        parts = []
        for v, cap in p[1]:
            parts.append(render(v) + (f" -> {cap}" if cap else ""))
        if p[2] is not None:
            parts.append("*" + (f" -> {p[2][1]}" if p[2][1] else ""))
        return "[" + " ".join(parts) + "]"
    if kind == "re":
        return '"' + p[1] + '"'
    if kind == "none":
        return "None"
    if kind == "var":
        return "$" + p[1]
    raise ValueError(p)


class Fail(Exception):
    pass


def match(pat, node, env):
    ctx: dict = {}
    try:
        _tree(pat, node, ctx, env)
    except Fail:
        return False, {}
    return True, ctx


def _is_node(v, env):
    return env["is_node"](v)


def _value(v, val, ctx, env):
    kind = v[0]
    if kind == "tree":
        _tree(v, val, ctx, env)
    elif kind == "re":
        if re.match(v[1], str(val)) is None:
            raise Fail
    elif kind == "none":
        if val is not None:
            raise Fail
    elif kind == "var":
        cap = ctx[v[1]]
        if _is_node(cap, env):
            if not (_is_node(val, env) and env["content_equal"](cap, val)):
                raise Fail
        elif not env["plain_equal"](cap, val):
            raise Fail
    else:
        raise ValueError(v)


def _seq(s, val, ctx, env):
    elems, tail = s[1], s[2]
    if not isinstance(val, (tuple, str, bytes)):
        # a bracketed sequence matches element-wise: the value must HAVE elements (a tuple of children, but also a str / bytes
        # property, whose elements are its characters); None, a single node, a number have none
        raise Fail
    if not elems and tail is None and not isinstance(val, tuple):
        raise Fail   # "[] matches only the empty tuple"
    if tail is None:
        if len(val) != len(elems):
            raise Fail
    elif len(val) < len(elems):
        raise Fail
    for (v, cap), x in zip(elems, val):
        _value(v, x, ctx, env)
        if cap:
            ctx[cap] = x
    if tail is not None and tail[1]:
        ctx[tail[1]] = tuple(val[len(elems):])


def _tree(p, val, ctx, env):
    if not _is_node(val, env):
        raise Fail
    if p[1] != "*" and not any(env["is_instance"](val, c) for c in p[1]):
        raise Fail
    for fname, spec, cap in p[2]:
        if not hasattr(val, fname):
            raise Fail
        x = getattr(val, fname)
        if spec is not None:
            if spec[0] == "seq":
                _seq(spec, x, ctx, env)
            else:
                _value(spec, x, ctx, env)
        if cap:
            ctx[cap] = x


def captures_of(p, out=None):
    """Capture names in text order (for well-formedness of generated patterns)."""
    out = [] if out is None else out
    if p[0] == "tree":
        for fname, spec, cap in p[2]:
            if spec is not None:
                captures_of(spec, out)
            if cap:
                out.append(cap)
    elif p[0] == "seq":
        for v, cap in p[1]:
            captures_of(v, out)
            if cap:
                out.append(cap)
        if p[2] is not None and p[2][1]:
            out.append(p[2][1])
    return out


def well_formed(p) -> bool:
    """Unique capture names and every variable after its capture (text order)."""
    seen: list = []

    def walk(q) -> bool:
        if q[0] == "tree":
            for fname, spec, cap in q[2]:
                if spec is not None and not walk(spec):
                    return False
                if cap:
                    if cap in seen:
                        return False
                    seen.append(cap)
            return True
        if q[0] == "seq":
            for v, cap in q[1]:
                if not walk(v):
                    return False
                if cap:
                    if cap in seen:
                        return False
                    seen.append(cap)
            if q[2] is not None and q[2][1]:
                if q[2][1] in seen:
                    return False
                seen.append(q[2][1])
            return True
        if q[0] == "var":
            return q[1] in seen
        return True

    return walk(p)
